"""Worker entry: execute ONE explicit plan in this fresh interpreter.

stdin : plan (JSON)
fd 1  : one line 'RESULT <json>' (the real stdout, saved before anything runs)
exit  : 0 executed (violations, if any, are judged by the parent from the
        history), 3 harness error (message on stderr)

Seeded runs and replays go through exactly this path, so a replay is the same
execution: same interpreter flags, same hash seed, ASLR off, same plan bytes.
"""

import faulthandler
import json
import os
import sys


def main() -> int:
    from . import wal

    fd = os.dup(1)
    real_stdout = os.fdopen(fd, "w")
    wal.attach(fd)
    faulthandler.enable()
    raw = sys.stdin.read()
    plan = json.loads(raw)
    # the parent enforces the hard limit (and attributes the kill with the write-ahead markers);
    # shortly before, every thread's stack is dumped to stderr for the report
    hard = float(plan.get("hard_timeout_s", 600))
    faulthandler.dump_traceback_later(max(1.0, hard - 5.0), exit=False)
    world = plan.get("world", "compiler")
    from .simfs import HarnessError

    try:
        if world == "compiler":
            from .compiler_world import execute
        elif world == "fleet":
            from .fleet_world import execute
        elif world == "golden":
            from .golden import execute
        else:
            raise HarnessError("unknown world %r" % (world,))
        result = execute(plan)
    except HarnessError as e:
        sys.__stderr__.write("HARNESS-ERROR: %s\n" % (e,))
        return 3
    except BaseException:
        import traceback

        sys.__stderr__.write("HARNESS-ERROR: exception in the simulator itself\n")
        traceback.print_exc(file=sys.__stderr__)
        return 3
    real_stdout.write("RESULT " + json.dumps(result, sort_keys=True, separators=(",", ":")) + "\n")
    real_stdout.flush()
    return 0


if __name__ == "__main__":
    code = main()
    sys.stdout.flush()
    os._exit(code)
