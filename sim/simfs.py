"""SimFS: the in-memory, fault-injecting file system the compiler runs on.

* POSIX-like tree: directories, regular files, symlinks, hard links (inode
  identity), a current working directory.
* Text files are UTF-8.
* Volatility model: bytes handed to write() sit in a userspace buffer
  (BUFSZ) until flush/close -- lost when the process is killed; flushed bytes
  are in the "page cache" (inode data) -- they survive a process kill, and may
  be lost or torn on power loss.
* Every call that reaches the file system through a seam is numbered within
  the current operation; a fault plan maps (call number) -> fault.

Only genuine OSError subclasses are ever raised towards the system under
test; anything else escaping from here is a HarnessError.
"""

import errno
import os as _real_os
import posixpath
import stat as _stat

BUFSZ = 8192
MAXSYMLINKS = 40

# Real functions, captured before any window patches them.
import builtins as _builtins
import sys as _sys

_REAL_OPEN = _builtins.open
_REAL_STAT = _real_os.stat
_REAL_LSTAT = _real_os.lstat
_REAL_LISTDIR = _real_os.listdir
_REAL_READLINK = _real_os.readlink
_REAL_SCANDIR = _real_os.scandir
# Paths of the interpreter and of the system under test itself are not part of
# the simulated world: the import system, linecache and ply's self-inspection
# read them. They pass through to the real file system, uncounted.
REPO = (_real_os.environ.get("VERIF_REPO") or "/repo").rstrip("/")
PASSTHROUGH = tuple(
    sorted({REPO + "/", "/repo/", "/venv/", "/usr/", "/opt/", "/lib/", "/lib64/", "/etc/", "/proc/", "/dev/", _sys.prefix.rstrip("/") + "/", _sys.base_prefix.rstrip("/") + "/"})
)


class HarnessError(BaseException):
    """A defect or limitation of the simulator itself. Never a violation."""


class SimCrash(BaseException):
    """The simulated process was killed (or the machine lost power)."""

    def __init__(self, power: bool, where: str):
        super().__init__("power-loss" if power else "kill", where)
        self.power = power
        self.where = where


def _fspath(p):
    """os.fspath with the TypeError marked as the caller's own (what the real function would
    raise for the same argument), so that it is not mistaken for a defect of the model."""
    try:
        return _real_os.fspath(p)
    except TypeError as e:
        e._sim_user_error = True
        raise


def _user_error(exc):
    exc._sim_user_error = True
    return exc


def oserr(code: int, path=None, path2=None) -> OSError:
    if path2 is not None:
        return OSError(code, _real_os.strerror(code), path, None, path2)
    if path is not None:
        return OSError(code, _real_os.strerror(code), path)
    return OSError(code, _real_os.strerror(code))


# fault kinds applicable per seam-call kind
FAULTS_BY_CALL = {
    "open_r": ["ENOENT", "EACCES", "EISDIR", "ELOOP", "EMFILE", "ENAMETOOLONG", "EIO"],
    "read": ["EIO"],
    "stat": ["ENOENT", "EACCES", "ELOOP"],
    "getcwd": ["ENOENT"],
    "open_w": ["ENOENT", "EACCES", "EROFS", "EISDIR", "ENOSPC", "EDQUOT"],
    "write": ["ENOSPC", "EIO"],
    "close_w": ["EIO", "ENOSPC"],
    "rename": ["EXDEV", "EBUSY", "EACCES", "EROFS", "ENOSPC", "ENOENT"],
    "fsync": ["EIO", "ENOSPC"],
}
# calls that act on a descriptor: like read(2)/write(2)/close(2)/fsync(2)/getcwd(2) in the real
# interpreter, their OSError carries NO filename (error.filename is None). (Until round 9 the
# injected errors named the path, so code that formats `error.filename` in a handler never met
# the None it meets on a real disk: seeded change r9b was missed that way.)
NO_FILENAME = ("read", "write", "close_w", "fsync", "getcwd")
CRASHABLE = ("open_r", "read", "stat", "getcwd", "open_w", "write", "close_w", "rename", "fsync")
# persistent conditions apply to a class of calls: reading side / writing side
_SEAM_CLASS = {"open_r": "r", "read": "r", "stat": "r", "getcwd": "r", "open_w": "w", "write": "w", "close_w": "w", "rename": "w", "fsync": "w"}


class Inode:
    __slots__ = ("ino", "kind", "data", "target", "entries", "nlink", "epoch", "dirty_from", "mtime", "perm")

    def __init__(self, ino: int, kind: str):
        self.ino = ino
        self.kind = kind  # 'f' | 'd' | 'l'
        self.data = b""  # 'f'
        self.target = ""  # 'l'
        self.entries = {}  # 'd': name -> ino
        self.nlink = 0
        self.epoch = 0  # power epoch in which the inode was created
        self.dirty_from = None  # (old_data) if modified since the last sync point
        self.mtime = 0.0
        self.perm = None  # permission bits if chmod was called (informational: access is not enforced)


def SimStat(node: Inode):
    """A genuine os.stat_result (indexable, isinstance-able) describing a simulated inode."""
    size = len(node.data) if node.kind == "f" else 0
    mode = {
        "f": _stat.S_IFREG | (0o644 if node.perm is None else node.perm),
        "d": _stat.S_IFDIR | (0o755 if node.perm is None else node.perm),
        "l": _stat.S_IFLNK | 0o777,
    }[node.kind]
    t = float(node.mtime)
    ns = int(node.mtime * 1e9)
    return _real_os.stat_result(
        (mode, node.ino, 0x5151, node.nlink, 1000, 1000, size, int(t), int(t), int(t)),
        {"st_atime": t, "st_mtime": t, "st_ctime": t, "st_atime_ns": ns, "st_mtime_ns": ns, "st_ctime_ns": ns, "st_blksize": 4096, "st_blocks": (size + 511) // 512, "st_rdev": 0},
    )


class SimFS:
    def __init__(self) -> None:
        self.inodes = {}
        self.next_ino = 2
        self.power_epoch = 0
        self.clock = None  # callable -> virtual seconds (set by the world); files written later are newer
        self._ticks = 0
        root = self._new("d")
        root.nlink = 1
        self.root = root.ino
        self.cwd = "/"
        self.cwd_removed = False
        # fault machinery (per operation)
        self.call_no = 0  # seam calls in the current op
        self.trace = []  # [(call_no, kind, path)] for the current op
        self.plan = {}  # call_no -> fault dict
        self.fired = []  # faults that fired in the current op
        self.crashed = False  # set once SimCrash has been raised; every later seam call raises it again
        self.crash_power = False
        self.sticky = []  # persistent conditions: [(class, path or None, errno name, ops left)]
        self.open_files = []
        self.probes = {}
        self.recycle_inodes = False  # knob: reuse the inode numbers of deleted files
        self.blksize = 4096  # st_blksize: the size of the buffered layer's buffer (as on ext4/tmpfs)

    # ------------------------------------------------------------------ tree
    def now(self) -> float:
        """Virtual modification time: the simulated clock plus a strictly increasing tick."""
        self._ticks += 1
        base = self.clock() if self.clock is not None else 0.0
        return base + self._ticks * 1e-3

    def _new(self, kind: str) -> Inode:
        if getattr(self, "recycle_inodes", False) and kind == "f":
            # ext4-style: the number of a deleted file is handed out again (what defeats caches
            # keyed by (st_dev, st_ino))
            busy = {id(sf.node) for sf in self.open_files} | {id(getattr(h, "node", None)) for h in getattr(self, "fds", {}).values()}
            for ino in sorted(self.inodes):
                old = self.inodes[ino]
                if old.kind == "f" and old.nlink <= 0 and id(old) not in busy:
                    node = Inode(ino, kind)
                    node.epoch = self.power_epoch
                    node.mtime = self.now()
                    self.inodes[ino] = node
                    self._probe("inode_number_recycled")
                    return node
        node = Inode(self.next_ino, kind)
        node.epoch = self.power_epoch
        node.mtime = self.now()
        self.inodes[node.ino] = node
        self.next_ino += 1
        return node

    def is_real(self, path) -> bool:
        """True if `path` names something outside the simulated world."""
        try:
            p = _fspath(path)
        except TypeError:
            return False
        if isinstance(p, bytes):
            p = p.decode("utf-8", "surrogateescape")
        if p.startswith("<"):  # '<string>', '<frozen ...>' pseudo file names
            return True
        return p.startswith(PASSTHROUGH)

    def _abspath(self, path: str) -> str:
        if not isinstance(path, str):
            path = _fspath(path)
            if isinstance(path, bytes):
                path = path.decode("utf-8", "surrogateescape")
        if path == "":
            raise oserr(errno.ENOENT, path)
        if "\0" in path:
            raise ValueError("embedded null byte")
        if not path.startswith("/"):
            if self.cwd_removed:
                raise oserr(errno.ENOENT, path)
            path = self.cwd.rstrip("/") + "/" + path
        return path

    def _walk(self, path: str, follow_last: bool = True, want_parent: bool = False):
        """Resolve `path`. Returns inode (or (parent_inode, name) if want_parent).
        Raises OSError like the kernel would."""
        orig = path
        if len(path) > 4096:
            raise oserr(errno.ENAMETOOLONG, orig)
        path = self._abspath(path)
        trailing_slash = path.endswith("/") and path != "/"
        comps = [c for c in path.split("/") if c != ""]
        links = 0
        cur = self.inodes[self.root]
        stack = [cur]  # for '..'
        i = 0
        while i < len(comps):
            name = comps[i]
            last = i == len(comps) - 1
            if len(name) > 255:
                raise oserr(errno.ENAMETOOLONG, orig)
            if cur.kind != "d":
                raise oserr(errno.ENOTDIR, orig)
            if name == ".":
                i += 1
                continue
            if name == "..":
                if len(stack) > 1:
                    stack.pop()
                cur = stack[-1]
                i += 1
                continue
            if last and want_parent:
                return cur, name
            ino = cur.entries.get(name)
            if ino is None:
                raise oserr(errno.ENOENT, orig)
            node = self.inodes[ino]
            if node.kind == "l" and (not last or follow_last or trailing_slash):
                links += 1
                if links > MAXSYMLINKS:
                    raise oserr(errno.ELOOP, orig)
                tcomps = [c for c in node.target.split("/") if c != ""]
                if node.target.startswith("/"):
                    cur = self.inodes[self.root]
                    stack = [cur]
                comps = tcomps + comps[i + 1 :]
                i = 0
                if not comps:
                    break
                continue
            cur = node
            stack.append(cur)
            i += 1
        if want_parent:
            # path was "/" or ended in "." / ".."
            raise oserr(errno.EEXIST if not comps else errno.EINVAL, orig)
        if trailing_slash and cur.kind != "d":
            raise oserr(errno.ENOTDIR, orig)
        return cur

    # ---------------------------------------------------- harness-level (no seam)
    def h_mkdir(self, path: str, parents: bool = True) -> None:
        path = posixpath.normpath(self._abspath(path))
        prefix = ""
        for name in [c for c in path.split("/") if c]:
            prefix = prefix + "/" + name
            try:
                node = self._walk(prefix)
                if node.kind != "d":
                    raise HarnessError("h_mkdir: not a directory: " + prefix)
            except FileNotFoundError:
                parent, nm = self._walk(prefix, want_parent=True)
                node = self._new("d")
                node.nlink = 1
                parent.entries[nm] = node.ino

    def h_write(self, path: str, text: str) -> None:
        # str may carry arbitrary bytes as lone surrogates (surrogateescape): byte-level mutations
        data = text.encode("utf-8", "surrogateescape") if isinstance(text, str) else bytes(text)
        parent, name = self._walk(path, want_parent=True)
        ino = parent.entries.get(name)
        if ino is not None and self.inodes[ino].kind == "l":
            node = self._walk(path)
        elif ino is not None:
            node = self.inodes[ino]
        else:
            node = self._new("f")
            node.nlink = 1
            parent.entries[name] = node.ino
        if node.kind != "f":
            raise HarnessError("h_write: not a regular file: " + path)
        node.data = data
        node.mtime = self.now()
        node.dirty_from = None  # harness writes are durable

    def h_read(self, path: str) -> bytes:
        node = self._walk(path)
        if node.kind != "f":
            raise HarnessError("h_read: not a file " + path)
        return node.data

    def h_exists(self, path: str) -> bool:
        try:
            self._walk(path)
            return True
        except OSError:
            return False

    def h_unlink(self, path: str) -> None:
        parent, name = self._walk(path, want_parent=True)
        ino = parent.entries.pop(name, None)
        if ino is None:
            return
        node = self.inodes[ino]
        node.nlink -= 1

    def h_symlink(self, target: str, linkpath: str) -> None:
        parent, name = self._walk(linkpath, want_parent=True)
        if name in parent.entries:
            raise HarnessError("h_symlink: exists " + linkpath)
        node = self._new("l")
        node.target = target
        node.nlink = 1
        parent.entries[name] = node.ino

    def h_link(self, src: str, dst: str) -> None:
        node = self._walk(src)
        if node.kind != "f":
            raise HarnessError("h_link: not a file " + src)
        parent, name = self._walk(dst, want_parent=True)
        if name in parent.entries:
            raise HarnessError("h_link: exists " + dst)
        parent.entries[name] = node.ino
        node.nlink += 1

    def h_rmtree(self, path: str) -> None:
        try:
            parent, name = self._walk(path, want_parent=True)
        except OSError:
            return
        parent.entries.pop(name, None)
        ap = posixpath.normpath(self._abspath(path))
        if self.cwd == ap or self.cwd.startswith(ap + "/"):
            self.cwd_removed = True

    def h_chdir(self, path: str) -> None:
        node = self._walk(path)
        if node.kind != "d":
            raise HarnessError("h_chdir: not a directory " + path)
        self.cwd = posixpath.normpath(self._abspath(path))
        self.cwd_removed = False

    def h_listing(self, top: str = "/"):
        """All regular files below `top`: {abs path: bytes}, sorted, symlinks not followed."""
        out = {}

        def rec(node, prefix):
            for name in sorted(node.entries):
                child = self.inodes[node.entries[name]]
                p = prefix.rstrip("/") + "/" + name
                if child.kind == "d":
                    rec(child, p)
                elif child.kind == "f":
                    out[p] = child.data

        try:
            rec(self._walk(top), posixpath.normpath(self._abspath(top)))
        except OSError:
            pass
        return out

    def image(self):
        """Serializable image of the whole tree (for replay files)."""
        files, dirs, links, hard = {}, [], {}, {}
        seen = {}

        def rec(node, prefix):
            for name in sorted(node.entries):
                child = self.inodes[node.entries[name]]
                p = prefix.rstrip("/") + "/" + name
                if child.kind == "d":
                    dirs.append(p)
                    rec(child, p)
                elif child.kind == "l":
                    links[p] = child.target
                else:
                    if child.ino in seen:
                        hard[p] = seen[child.ino]
                    else:
                        seen[child.ino] = p
                        files[p] = child.data.decode("utf-8", "surrogateescape")

        rec(self.inodes[self.root], "/")
        return {"dirs": dirs, "files": files, "symlinks": links, "hardlinks": hard, "cwd": self.cwd}

    @classmethod
    def from_image(cls, img) -> "SimFS":
        fs = cls()
        fs.blksize = int(img.get("blksize") or 4096)
        fs.recycle_inodes = bool(img.get("recycle_inodes"))
        fs.dir_order = int(img.get("dir_order") or 0)
        fs.h_mkdir("/tmp")  # where tempfile looks when no dir= is given
        for d in img.get("dirs", []):
            fs.h_mkdir(d)
        for p, text in img.get("files", {}).items():
            fs.h_mkdir(posixpath.dirname(p) or "/")
            fs.h_write(p, text.encode("utf-8", "surrogateescape"))
        for p, src in img.get("hardlinks", {}).items():
            fs.h_mkdir(posixpath.dirname(p) or "/")
            fs.h_link(src, p)
        for p, target in img.get("symlinks", {}).items():
            fs.h_mkdir(posixpath.dirname(p) or "/")
            fs.h_symlink(target, p)
        cwd = img.get("cwd", "/")
        fs.h_mkdir(cwd)
        fs.h_chdir(cwd)
        return fs

    # -------------------------------------------------------------- fault seam
    def begin_op(self, plan) -> None:
        # persistent conditions (disk stays full, a file stays unreadable) age per operation
        self.sticky = [(c, p, e, n - 1) for (c, p, e, n) in self.sticky if n - 1 > 0]
        self.call_no = 0
        self.trace = []
        self.plan = dict(plan or {})
        self.fired = []
        self.crashed = False
        self.in_op = True

    def end_op(self) -> None:
        """Between operations nothing is numbered and no fault fires: a leaked file object that
        the garbage collector finalises later (its flush and close reach the raw file) must not
        meet a planned or persistent fault outside the operation it was planned for."""
        self.in_op = False
        self.plan = {}
        self.crashed = False  # (the files open at the crash stay abandoned)

    def _seam(self, kind: str, path):
        """Number this call; fire a planned fault if one is due and applicable.
        For kind == 'write' the applicable fault (errno or crash) is *returned*
        and the file object carries it out (it knows the data)."""
        if self.crashed:
            # the process is gone: whatever handlers and `finally` blocks attempt while the crash
            # unwinds never reaches the disk (a real kill runs none of them)
            raise SimCrash(self.crash_power, "after-crash")
        if not getattr(self, "in_op", True):
            return None
        self.call_no += 1
        n = self.call_no
        self.trace.append((n, kind, path if isinstance(path, str) else None))
        f = self.plan.get(n)
        if f is None:
            # a persistent condition set up by an earlier sticky fault?
            cls = _SEAM_CLASS.get(kind)
            for (c, p, e, left) in self.sticky:
                # (a volume-wide condition -- disk full, read-only -- belongs to one side; a
                # path-scoped one -- no permission, vanished -- hits every call that resolves it)
                if ((p is None and c == cls and e in FAULTS_BY_CALL.get(kind, ())) or (p is not None and p == path and (c == cls and e in FAULTS_BY_CALL.get(kind, ()) or e in ("EACCES", "ELOOP", "ENOENT")))):
                    if kind == "write":
                        return {"kind": e, "frac": 0.0, "sticky_echo": True}
                    self.fired.append({"call": n, "seam": kind, "kind": e, "sticky_echo": True})
                    raise oserr(getattr(errno, e), path if isinstance(path, str) and kind not in NO_FILENAME else None)
            return None
        fk = f["kind"]
        if fk == "crash":
            if kind not in CRASHABLE:
                return None
            if kind == "write":
                return f
            self.fired.append({"call": n, "seam": kind, "kind": "crash", "power": bool(f.get("power"))})
            self._do_crash(bool(f.get("power")), f.get("tear", 0))
            raise SimCrash(bool(f.get("power")), "%s#%d" % (kind, n))
        if fk not in FAULTS_BY_CALL.get(kind, ()):
            return None  # not applicable to this call: does not fire
        if f.get("sticky"):
            # the condition persists: same path for access problems, the whole volume for space problems
            cls = _SEAM_CLASS.get(kind)
            whole = fk in ("ENOSPC", "EDQUOT", "EROFS", "EMFILE")
            self.sticky.append((cls, None if whole else path, fk, int(f.get("sticky"))))
            if cls == "w":
                pass
        if kind == "write":
            return f
        self.fired.append({"call": n, "seam": kind, "kind": fk})
        raise oserr(getattr(errno, fk), path if isinstance(path, str) and kind not in NO_FILENAME else None)

    def _do_crash(self, power: bool, tear: int) -> None:
        """Process kill: userspace buffers vanish. Power loss: page cache may be lost/torn."""
        self.crashed = True
        self.crash_power = power
        for sf in self.open_files:
            sf._abandon()
        self.open_files = []
        if power:
            k = 0
            for ino in sorted(self.inodes):
                node = self.inodes[ino]
                if node.kind == "f" and node.dirty_from is not None:
                    k += 1
                    mode = (tear >> (2 * k)) & 3
                    if mode == 0:
                        pass  # made it to disk completely
                    elif mode == 1:
                        node.data = b""  # size update lost after truncate
                    elif mode == 2:
                        cut = (len(node.data) // 4096) * 4096
                        if cut == len(node.data) and cut >= 4096:
                            cut -= 4096
                        node.data = node.data[:cut]  # torn at a page boundary
                    else:
                        node.data = node.dirty_from  # none of it reached the disk
                    self._probe("power_loss_file_outcome_%d" % mode)
                node.dirty_from = None
            self.power_epoch += 1
        self._probe("crash_power" if power else "crash_kill")

    def _probe(self, name: str, n: int = 1) -> None:
        self.probes[name] = self.probes.get(name, 0) + n

    # ------------------------------------------------------------- seam API
    def open(self, file, mode="r", buffering=-1, encoding=None, errors=None, newline=None, closefd=True, opener=None):
        """builtins.open / io.open. The object handed out is CPython's own buffered/text stack
        (io.BufferedReader/Writer/Random, io.TextIOWrapper) over a SimRaw: every file-object
        idiom behaves as on a real file; only the raw layer is simulated."""
        if isinstance(file, int):
            if file >= self.FD_BASE:
                return self.fdopen(file, mode, buffering, encoding, errors, newline, closefd)
            return _REAL_OPEN(file, mode, buffering, encoding, errors, newline, closefd, opener)
        if not isinstance(mode, str):
            raise TypeError("invalid mode: %r" % (mode,))
        if self.is_real(file) and opener is None:
            if any(c in mode for c in "wax+"):
                self._refuse_real_write(file)
            return _REAL_OPEN(file, mode, buffering, encoding, errors, newline, closefd, opener)
        fl = _ModeFlags(mode, buffering, encoding, errors, newline)
        path = _fspath(file)
        if isinstance(path, bytes):
            path = path.decode("utf-8", "surrogateescape")
        if opener is not None:
            fd = opener(path, fl.os_flags())
            if not isinstance(fd, int):
                raise TypeError("expected integer from opener")
            if fd < self.FD_BASE:
                return _REAL_OPEN(fd, mode, buffering, encoding, errors, newline, closefd)
            raw = self._fd(fd)
            if not isinstance(raw, SimRaw):
                raise oserr(errno.EISDIR, path)
        else:
            raw = self._open_raw(path, fl.reading and not fl.updating, fl.writing or fl.creating or fl.appending or fl.updating, fl.appending, fl.creating, fl.writing, must_exist=fl.reading, readable=fl.reading or fl.updating)
        return self._wrap(raw, mode, fl, buffering, encoding, errors, newline)

    def _refuse_real_write(self, path):
        """The interpreter's and the system's own directories (/usr, /venv, the tree under test
        ...) are visible but never writable from inside the simulation: the simulated user has no
        permission there (nothing is ever written to the real file system)."""
        p = _fspath(path)
        if isinstance(p, bytes):
            p = p.decode("utf-8", "surrogateescape")
        try:
            _REAL_STAT(posixpath.dirname(p) or "/")
        except OSError:
            raise oserr(errno.ENOENT, p)
        raise oserr(errno.EACCES, p)

    def _open_raw(self, path, read_only, writable, append, excl, trunc, must_exist=False, readable=False, create=True):
        if read_only:
            self._seam("open_r", path)
            node = self._walk(path)
            if node.kind == "d":
                raise oserr(errno.EISDIR, path)
            raw = SimRaw(self, node, path, True, False, False)
            self.open_files.append(raw)
            return raw
        self._seam("open_w", path)
        parent, name = self._walk(path, want_parent=True)
        if parent.kind != "d":
            raise oserr(errno.ENOTDIR, path)
        ino = parent.entries.get(name)
        if ino is not None:
            node = self.inodes[ino]
            if excl:
                raise oserr(errno.EEXIST, path)
            if node.kind == "l":
                try:
                    node = self._walk(path)
                except FileNotFoundError:
                    if must_exist or not create:
                        raise
                    # dangling symlink: create the target
                    lp, ln = self._walk(posixpath.join(posixpath.dirname(self._abspath(path)), node.target), want_parent=True)
                    node = self._new("f")
                    node.nlink = 1
                    lp.entries[ln] = node.ino
                    node.dirty_from = b""
            if node.kind == "d":
                raise oserr(errno.EISDIR, path)
            if path.endswith("/"):
                raise oserr(errno.ENOTDIR, path)
        else:
            if must_exist or not create:
                raise oserr(errno.ENOENT, path)
            if path.endswith("/"):
                raise oserr(errno.EISDIR, path)
            node = self._new("f")
            node.nlink = 1
            parent.entries[name] = node.ino
            node.dirty_from = b""
        if trunc:
            if node.dirty_from is None:
                node.dirty_from = node.data
            node.data = b""  # O_TRUNC takes effect at open
            node.mtime = self.now()
        raw = SimRaw(self, node, path, readable, True, append)
        self.open_files.append(raw)
        return raw

    def _wrap(self, raw, mode, fl, buffering, encoding, errors, newline):
        """What io.open does above the raw file."""
        import io

        line_buffering = False
        if buffering == 1 and not fl.binary:
            buffering = -1
            line_buffering = True
        if buffering < 0:
            buffering = self.blksize if self.blksize > 1 else io.DEFAULT_BUFFER_SIZE
        if buffering == 0:
            if fl.binary:
                return raw
            raise ValueError("can't have unbuffered text I/O")
        if fl.updating:
            buf = io.BufferedRandom(raw, buffering)
        elif fl.creating or fl.writing or fl.appending:
            buf = io.BufferedWriter(raw, buffering)
        else:
            buf = io.BufferedReader(raw, buffering)
        if fl.binary:
            return buf
        text = io.TextIOWrapper(buf, encoding, errors, newline, line_buffering)
        text.mode = mode
        return text

    def stat(self, path, *, dir_fd=None, follow_symlinks=True):
        if isinstance(path, int):
            if path >= self.FD_BASE:
                return self.os_fstat(path)
            return _REAL_STAT(path)
        if dir_fd is None and self.is_real(path):
            return _REAL_STAT(path, follow_symlinks=follow_symlinks)
        p = self._at(path, dir_fd)
        self._seam("stat", p)
        return SimStat(self._walk(p, follow_last=follow_symlinks))

    def lstat(self, path, *, dir_fd=None):
        return self.stat(path, dir_fd=dir_fd, follow_symlinks=False)

    def samefile(self, a, b) -> bool:
        s1 = self.stat(a)
        s2 = self.stat(b)
        return s1.st_ino == s2.st_ino and s1.st_dev == s2.st_dev

    def getcwd(self) -> str:
        self._seam("getcwd", None)
        if self.cwd_removed:
            raise oserr(errno.ENOENT)
        return self.cwd

    def chdir(self, path) -> None:
        p = _fspath(path)
        self._seam("stat", p)
        node = self._walk(p)
        if node.kind != "d":
            raise oserr(errno.ENOTDIR, p)
        self.cwd = posixpath.normpath(self._abspath(p))
        self.cwd_removed = False

    def readlink(self, path, *, dir_fd=None) -> str:
        if dir_fd is None and self.is_real(path):
            return _REAL_READLINK(path)
        p = self._at(path, dir_fd)
        self._seam("stat", p)
        node = self._walk(p, follow_last=False)
        if node.kind != "l":
            raise oserr(errno.EINVAL, p)
        return node.target

    def listdir(self, path="."):
        if isinstance(path, int):
            if path < self.FD_BASE:
                return _REAL_LISTDIR(path)
            path = self._fd(path).path
        if self.is_real(path):
            return _REAL_LISTDIR(path)
        p = _fspath(path)
        self._seam("stat", p)
        node = self._walk(p)
        if node.kind != "d":
            raise oserr(errno.ENOTDIR, p)
        names = self._dir_order(node.entries)
        if isinstance(path, bytes):
            return [n.encode("utf-8", "surrogateescape") for n in names]
        return names

    def _dir_order(self, names):
        """The order in which a directory hands out its entries: like a real file system's hash
        order it has nothing to do with the names; it is fixed per run (knob `dir_order`,
        0 = sorted)."""
        k = getattr(self, "dir_order", 0)
        if not k:
            return sorted(names)
        import hashlib

        return sorted(names, key=lambda n: hashlib.sha256(("%d/%s" % (k, n)).encode("utf-8", "surrogateescape")).digest())

    def mkdir(self, path, mode=0o777, *, dir_fd=None) -> None:
        p = self._at(path, dir_fd)
        self._seam("open_w", p)
        parent, name = self._walk(p.rstrip("/") or "/", want_parent=True)
        if name in parent.entries:
            raise oserr(errno.EEXIST, p)
        node = self._new("d")
        node.nlink = 1
        if mode != 0o777:
            node.perm = mode & 0o7777 & ~0o022
        parent.entries[name] = node.ino

    def unlink(self, path, *, dir_fd=None) -> None:
        p = self._at(path, dir_fd)
        self._seam("open_w", p)
        parent, name = self._walk(p, want_parent=True)
        ino = parent.entries.get(name)
        if ino is None:
            raise oserr(errno.ENOENT, p)
        if self.inodes[ino].kind == "d":
            raise oserr(errno.EISDIR, p)
        del parent.entries[name]
        self.inodes[ino].nlink -= 1

    def rmdir(self, path, *, dir_fd=None) -> None:
        p = self._at(path, dir_fd)
        self._seam("open_w", p)
        parent, name = self._walk(p.rstrip("/") or "/", want_parent=True)
        ino = parent.entries.get(name)
        if ino is None:
            raise oserr(errno.ENOENT, p)
        node = self.inodes[ino]
        if node.kind != "d":
            raise oserr(errno.ENOTDIR, p)
        if node.entries:
            raise oserr(errno.ENOTEMPTY, p)
        del parent.entries[name]

    def rename(self, src, dst, *, src_dir_fd=None, dst_dir_fd=None) -> None:
        s = self._at(src, src_dir_fd)
        d = self._at(dst, dst_dir_fd)
        self._seam("rename", d)
        sp, sn = self._walk(s, want_parent=True)
        ino = sp.entries.get(sn)
        if ino is None:
            raise oserr(errno.ENOENT, s, d)
        if self.inodes[ino].kind == "d":
            sa, da = posixpath.normpath(self._abspath(s)), posixpath.normpath(self._abspath(d))
            if da.startswith(sa.rstrip("/") + "/"):
                raise oserr(errno.EINVAL, s, d)  # a directory cannot be moved into itself
        dp, dn = self._walk(d, want_parent=True)
        old = dp.entries.get(dn)
        if old is not None and old == ino:
            return  # both names are the same file already: nothing happens
        if old is not None:
            on = self.inodes[old]
            if on.kind == "d" and self.inodes[ino].kind != "d":
                raise oserr(errno.EISDIR, s, d)
            if on.kind != "d" and self.inodes[ino].kind == "d":
                raise oserr(errno.ENOTDIR, s, d)
            if on.kind == "d" and on.entries:
                raise oserr(errno.ENOTEMPTY, s, d)
            on.nlink -= 1
        del sp.entries[sn]
        dp.entries[dn] = ino

    # ---------------------------------------------------- low-level descriptors
    FD_BASE = 1000

    def _at(self, path, dir_fd):
        """Path argument of a *at()-style call (dir_fd=...)."""
        p = _fspath(path)
        if isinstance(p, bytes):
            p = p.decode("utf-8", "surrogateescape")
        if dir_fd is None or p.startswith("/"):
            return p
        h = self._fd(dir_fd)
        if not isinstance(h, SimDirHandle):
            raise oserr(errno.ENOTDIR, p)
        return h.path.rstrip("/") + "/" + p

    def os_open(self, path, flags, mode=0o777, *, dir_fd=None):
        import os as _o

        p = self._at(path, dir_fd)
        acc = flags & _o.O_ACCMODE
        if self.is_real(p):
            if acc != _o.O_RDONLY or (flags & _o.O_CREAT):
                self._refuse_real_write(p)
            raise HarnessError("os.open (read-only) of the real path %r from inside the simulation" % (p,))
        created = False
        exists, node = True, None
        try:
            node = self._walk(p, follow_last=not (flags & _o.O_NOFOLLOW))
        except OSError:
            exists = False
        if exists and node.kind == "l" and (flags & _o.O_NOFOLLOW):
            self._seam("open_r", p)
            raise oserr(errno.ELOOP, p)
        if exists and node.kind == "d" and acc == _o.O_RDONLY and not (flags & _o.O_CREAT):
            self._seam("open_r", p)
            h = SimDirHandle(self, node, posixpath.normpath(self._abspath(p)))
            return self.alloc_fd(h)
        if (flags & getattr(_o, "O_DIRECTORY", 0)) and exists and node.kind != "d":
            self._seam("open_r", p)
            raise oserr(errno.ENOTDIR, p)
        if acc == _o.O_RDONLY and not (flags & _o.O_CREAT):
            raw = self._open_raw(p, True, False, False, False, False)
        else:
            created = not exists
            raw = self._open_raw(
                p,
                False,
                acc != _o.O_RDONLY,
                bool(flags & _o.O_APPEND),
                bool(flags & _o.O_EXCL) and bool(flags & _o.O_CREAT),
                bool(flags & _o.O_TRUNC) and acc != _o.O_RDONLY,
                readable=acc in (_o.O_RDONLY, _o.O_RDWR),
                create=bool(flags & _o.O_CREAT),
            )
        if created and raw.node.perm is None and mode != 0o777:
            raw.node.perm = mode & 0o7777 & ~0o022
        return raw.fileno()

    def _alive(self) -> None:
        """Calls that do not pass a seam (descriptor-based metadata changes) after the kill."""
        if self.crashed:
            raise SimCrash(self.crash_power, "after-crash")

    def _fd(self, fd):
        sf = getattr(self, "fds", {}).get(fd)
        if sf is None:
            raise oserr(errno.EBADF)
        return sf

    def _rawfd(self, fd):
        sf = self._fd(fd)
        if not isinstance(sf, SimRaw):
            raise oserr(errno.EISDIR)
        return sf

    def os_write(self, fd, data):
        return self._rawfd(fd).write(data)  # a write(2) goes to the page cache at once

    def os_read(self, fd, n):
        return self._rawfd(fd).read(n)

    def os_lseek(self, fd, pos, how):
        return self._rawfd(fd).seek(pos, how)

    def os_sendfile(self, out_fd, in_fd, offset, count):
        src, dst = self._rawfd(in_fd), self._rawfd(out_fd)
        self._seam("read", src.name)
        start = src._pos if offset is None else offset
        data = src.node.data[start : start + count]
        if offset is None:
            src._pos += len(data)
        if not data:
            return 0
        return dst.write(data)

    def os_close(self, fd):
        sf = self._fd(fd)
        if isinstance(sf, (SimDirHandle, _LeftoverFd)):
            del self.fds[fd]
            if isinstance(sf, _LeftoverFd) and sf._w:
                self._seam("close_w", sf.name)
            return
        sf._keep_fd = False
        sf.close()

    def alloc_fd(self, sf) -> int:
        if not hasattr(self, "fds"):
            self.fds = {}
        fd = self.FD_BASE + len(self.fds)
        while fd in self.fds:
            fd += 1
        self.fds[fd] = sf
        return fd

    def os_fsync(self, fd):
        if not isinstance(fd, int):
            fd = fd.fileno()
        sf = self._fd(fd)
        self._seam("fsync", getattr(sf, "name", None))
        sf.node.dirty_from = None  # durable from here on

    def os_fstat(self, fd):
        return SimStat(self._fd(fd).node)

    def fdopen(self, fd, mode="r", buffering=-1, encoding=None, errors=None, newline=None, closefd=True, opener=None):
        raw = self._rawfd(fd)
        fl = _ModeFlags(mode, buffering, encoding, errors, newline)
        if not closefd:
            raw._keep_fd = True
        return self._wrap(raw, mode, fl, buffering, encoding, errors, newline)

    def chmod(self, path, mode, *, dir_fd=None, follow_symlinks=True):
        if isinstance(path, int):
            node = self._fd(path).node
        else:
            p = self._at(path, dir_fd)
            self._seam("open_w", p)
            node = self._walk(p, follow_last=follow_symlinks)
        node.perm = mode & 0o7777

    def chown(self, path, uid, gid, *, dir_fd=None, follow_symlinks=True):
        if not isinstance(path, int):
            p = self._at(path, dir_fd)
            self._seam("open_w", p)
            self._walk(p, follow_last=follow_symlinks)

    def symlink(self, src, dst, target_is_directory=False, *, dir_fd=None):
        d = self._at(dst, dir_fd)
        self._seam("open_w", d)
        parent, name = self._walk(d, want_parent=True)
        if name in parent.entries:
            raise oserr(errno.EEXIST, _fspath(src), d)
        node = self._new("l")
        node.target = _fspath(src)
        node.nlink = 1
        parent.entries[name] = node.ino

    def link(self, src, dst, *, src_dir_fd=None, dst_dir_fd=None, follow_symlinks=True):
        s_, d = self._at(src, src_dir_fd), self._at(dst, dst_dir_fd)
        self._seam("open_w", d)
        node = self._walk(s_, follow_last=follow_symlinks)
        if node.kind == "d":
            raise oserr(errno.EPERM, s_, d)
        parent, name = self._walk(d, want_parent=True)
        if name in parent.entries:
            raise oserr(errno.EEXIST, s_, d)
        parent.entries[name] = node.ino
        node.nlink += 1

    def truncate(self, path, length):
        if isinstance(path, int):
            self._alive()
            h = self._fd(path)
            if not getattr(h, "_w", True):
                raise oserr(errno.EINVAL)
            node = h.node
        else:
            p = _fspath(path)
            self._seam("open_w", p)
            node = self._walk(p)
        if node.kind != "f":
            raise oserr(errno.EISDIR)
        if node.dirty_from is None:
            node.dirty_from = node.data
        node.data = node.data[:length] + b"\0" * max(0, length - len(node.data))
        node.mtime = self.now()

    def utime(self, path, times=None, *, ns=None, dir_fd=None, follow_symlinks=True):
        if isinstance(path, int):
            node = self._fd(path).node
        else:
            p = self._at(path, dir_fd)
            self._seam("open_w", p)
            node = self._walk(p, follow_last=follow_symlinks)
        if times is not None:
            node.mtime = float(times[1])
        elif ns is not None:
            node.mtime = ns[1] / 1e9
        else:
            node.mtime = self.now()

    def scandir(self, path="."):
        via_fd = isinstance(path, int)
        if via_fd:
            if path < self.FD_BASE:
                return _REAL_SCANDIR(path)
            p = self._fd(path).path
        else:
            p = _fspath(path)
            if isinstance(p, bytes):
                p = p.decode("utf-8", "surrogateescape")
            if self.is_real(p):
                return _REAL_SCANDIR(p)
        self._seam("stat", p)
        node = self._walk(p)
        if node.kind != "d":
            raise oserr(errno.ENOTDIR, p)
        fs = self
        # (scanning a descriptor: DirEntry.path is the bare name, as in CPython)
        entries = [SimDirEntry(fs, p, name, fs.inodes[node.entries[name]], bare=via_fd) for name in self._dir_order(node.entries)]

        class _It:
            def __init__(self_):
                self_._it = iter(entries)

            def __iter__(self_):
                return self_

            def __next__(self_):
                return next(self_._it)

            def __enter__(self_):
                return self_

            def __exit__(self_, *a):
                return False

            def close(self_):
                pass

        return _It()

    def access(self, path, mode, *, dir_fd=None, effective_ids=False, follow_symlinks=True) -> bool:
        try:
            self.stat(path, dir_fd=dir_fd, follow_symlinks=follow_symlinks)
            return True
        except OSError:
            return False


class SimDirEntry:
    def __init__(self, fs, parent, name, node, bare=False):
        self._fs, self.name, self._node = fs, name, node
        self._full = (fs.cwd if parent in (".", "") else parent).rstrip("/") + "/" + name
        self.path = name if bare else ("./" + name if parent == "." else parent.rstrip("/") + "/" + name) if parent != "" else name

    def inode(self):
        return self._node.ino

    def _target(self, follow):
        if self._node.kind == "l" and follow:
            try:
                return self._fs._walk(self._full)
            except OSError:
                return None
        return self._node

    def is_dir(self, *, follow_symlinks=True):
        n = self._target(follow_symlinks)
        return n is not None and n.kind == "d"

    def is_file(self, *, follow_symlinks=True):
        n = self._target(follow_symlinks)
        return n is not None and n.kind == "f"

    def is_symlink(self):
        return self._node.kind == "l"

    def stat(self, *, follow_symlinks=True):
        n = self._target(follow_symlinks)
        if n is None:
            raise oserr(errno.ENOENT, self.path)
        return SimStat(n)

    def __fspath__(self):
        return self.path

    def __repr__(self):
        return "<SimDirEntry %r>" % self.name


class _ModeFlags:
    """Mode-string validation of io.open (same errors, same order)."""

    def __init__(self, mode, buffering, encoding, errors, newline):
        modes = set(mode)
        if modes - set("axrwb+t") or len(mode) > len(modes):
            raise ValueError("invalid mode: %r" % mode)
        self.creating = "x" in modes
        self.reading = "r" in modes
        self.writing = "w" in modes
        self.appending = "a" in modes
        self.updating = "+" in modes
        self.text = "t" in modes
        self.binary = "b" in modes
        if self.text and self.binary:
            raise ValueError("can't have text and binary mode at once")
        if self.creating + self.reading + self.writing + self.appending > 1:
            raise ValueError("can't have read/write/append mode at once")
        if not (self.creating or self.reading or self.writing or self.appending):
            raise ValueError("Must have exactly one of create/read/write/append mode and at most one plus")
        if self.binary and encoding is not None:
            raise ValueError("binary mode doesn't take an encoding argument")
        if self.binary and errors is not None:
            raise ValueError("binary mode doesn't take an errors argument")
        if self.binary and newline is not None:
            raise ValueError("binary mode doesn't take a newline argument")

    def os_flags(self) -> int:
        o = _real_os
        if self.reading:
            fl = o.O_RDWR if self.updating else o.O_RDONLY
        else:
            fl = (o.O_RDWR if self.updating else o.O_WRONLY) | o.O_CREAT
            if self.writing:
                fl |= o.O_TRUNC
            if self.appending:
                fl |= o.O_APPEND
            if self.creating:
                fl |= o.O_EXCL
        return fl | getattr(o, "O_CLOEXEC", 0)


class _LeftoverFd:
    """The descriptor of a file object that was opened with closefd=False and then closed."""

    def __init__(self, raw):
        self.node, self.name, self._w, self.fs = raw.node, raw.name, raw._w, raw.fs

    def _abandon(self):
        pass


class SimDirHandle:
    """A descriptor of a directory (os.open(dir, O_RDONLY): dir_fd=..., os.scandir(fd))."""

    def __init__(self, fs, node, path):
        self.fs, self.node, self.path = fs, node, path

    def _abandon(self):
        pass


import io as _io


class SimRaw(_io.RawIOBase):
    """The raw (unbuffered, binary) layer of an open simulated file: what io.FileIO is for a
    real one. Reads, writes and the final close are seam calls (numbered, fault-injectable);
    the buffering and text layers above are CPython's own."""

    def __init__(self, fs, node, path, readable, writable, append):
        super().__init__()
        self.fs = fs
        self.node = node
        self.name = path
        self._r, self._w, self._append = bool(readable), bool(writable), bool(append)
        self._pos = len(node.data) if append else 0
        self._dead = False
        self._fdno = None
        self._keep_fd = False
        self._pending_errno = None
        self.mode = ("ab+" if readable else "ab") if append else ("rb+" if readable else "wb") if writable else "rb"

    # --- the simulator's side
    def _abandon(self) -> None:
        """The process was killed: nothing this object is asked to do reaches the disk any more."""
        self._dead = True

    def _alive(self) -> None:
        if self.closed and not self._dead:
            raise ValueError("I/O operation on closed file.")

    # --- io.RawIOBase
    def readable(self):
        self._alive()
        return self._r

    def writable(self):
        self._alive()
        return self._w

    def seekable(self):
        self._alive()
        return True

    def isatty(self):
        self._alive()
        return False

    def fileno(self):
        self._alive()
        if self._fdno is None:
            self._fdno = self.fs.alloc_fd(self)
        return self._fdno

    def readinto(self, b):
        if self._dead:
            return 0
        self._alive()
        if not self._r:
            raise _io.UnsupportedOperation("File not open for reading")
        self.fs._seam("read", self.name)
        data = self.node.data[self._pos : self._pos + len(b)]
        n = len(data)
        b[:n] = data
        self._pos += n
        return n

    def _store(self, data: bytes) -> None:
        if not data:
            return
        node = self.node
        if node.dirty_from is None:
            node.dirty_from = node.data
        cur = node.data
        pos = len(cur) if self._append else self._pos
        if pos > len(cur):
            cur = cur + b"\0" * (pos - len(cur))
        node.data = cur[:pos] + data + cur[pos + len(data) :]
        self._pos = pos + len(data)
        node.mtime = self.fs.now()

    def write(self, b):
        data = bytes(b)
        if self._dead:
            return len(data)
        self._alive()
        if not self._w:
            raise _io.UnsupportedOperation("File not open for writing")
        fs = self.fs
        f = fs._seam("write", self.name)
        if f is not None:
            # a fault while this write(2) is carried out: a seeded prefix reaches the page cache
            total = len(data)
            if f["kind"] == "crash":
                keep = int(total * f.get("frac", 0.0))
                self._store(data[:keep])
                fs.fired.append({"call": fs.call_no, "seam": "write", "kind": "crash", "power": bool(f.get("power")), "kept": keep, "of": total})
                fs._do_crash(bool(f.get("power")), f.get("tear", 0))
                raise SimCrash(bool(f.get("power")), "write#%d" % fs.call_no)
            keep = int(total * f.get("frac", 0.5))
            if keep and keep == total:
                keep -= 1
            self._store(data[:keep])
            fs.fired.append({"call": fs.call_no, "seam": "write", "kind": f["kind"], "kept": keep, "of": total})
            fs._probe("torn_write")
            if keep > 0:
                # like write(2): a short count now, the error on the next call (the buffered layer
                # above knows how much went out and does not write the prefix twice)
                self._pending_errno = f["kind"]
                return keep
            raise oserr(getattr(errno, f["kind"]))
        if self._pending_errno is not None:
            e, self._pending_errno = self._pending_errno, None
            raise oserr(getattr(errno, e))
        self._store(data)
        return len(data)

    def seek(self, pos, whence=0):
        self._alive()
        if not isinstance(pos, int):
            raise _user_error(TypeError("'%s' object cannot be interpreted as an integer" % type(pos).__name__))
        if whence == 0:
            new = pos
        elif whence == 1:
            new = self._pos + pos
        elif whence == 2:
            new = len(self.node.data) + pos
        else:
            raise oserr(errno.EINVAL)
        if new < 0:
            raise oserr(errno.EINVAL)
        self._pos = new
        return new

    def tell(self):
        self._alive()
        return self._pos

    def truncate(self, size=None):
        self._alive()
        if not self._w:
            raise _io.UnsupportedOperation("File not open for writing")
        if size is None:
            size = self._pos
        if self._dead:
            return size
        node = self.node
        if node.dirty_from is None:
            node.dirty_from = node.data
        node.data = node.data[:size] + b"\0" * max(0, size - len(node.data))
        node.mtime = self.fs.now()
        return size

    def close(self):
        if self.closed:
            return
        try:
            super().close()  # marks the object closed (the descriptor is gone whatever happens next)
        finally:
            fs = self.fs
            if self._keep_fd:
                # opened with closefd=False: the descriptor outlives the file object
                fs.fds[self._fdno] = _LeftoverFd(self)
                return
            if self._fdno is not None:
                getattr(fs, "fds", {}).pop(self._fdno, None)
                self._fdno = None
            if self in fs.open_files:
                fs.open_files.remove(self)
        if self._w and not self._dead:
            # close(2) is where a delayed write error is reported
            self.fs._seam("close_w", self.name)
