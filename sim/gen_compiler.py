"""Seeded workload generator for the compiler-process world (C09, C18).

gen_plan(seed, mode) -> (plan, keys)
  plan : explicit op list + SimFS image (no faults yet)
  keys : {key id: golden request} for every keyed compile op (C18)
gen_faults(seed, plan, res0) -> fault list aimed with the seam traces of the
  fault-free pass.
"""

import hashlib
import os
import posixpath
import re

from . import mutate, schemagen
from .prng import Rng
from .simfs import FAULTS_BY_CALL

VERIF = os.path.dirname(os.path.dirname(os.path.abspath(__file__)))
CORPUS_DIR = os.path.join(VERIF, "corpus")
IMPORT_RE = re.compile(r'^\s*import\s+(?:[A-Za-z_]\w*\s+)?"([^"\n]*)"', re.M)
MESSAGE_RE = re.compile(r"^message\s+([A-Za-z_]\w*)", re.M)

_corpus_cache = None


def corpus():
    """{group: {filename: text}} -- snapshot under /verif/corpus."""
    global _corpus_cache
    if _corpus_cache is None:
        c = {}
        for g in sorted(os.listdir(CORPUS_DIR)):
            d = os.path.join(CORPUS_DIR, g)
            if not os.path.isdir(d):
                continue
            c[g] = {}
            for f in sorted(os.listdir(d)):
                if f.endswith(".bitproto"):
                    with open(os.path.join(d, f), encoding="utf-8") as fh:
                        c[g][f] = fh.read()
        _corpus_cache = c
    return _corpus_cache


def h(*parts) -> str:
    m = hashlib.sha256()
    for p in parts:
        m.update(repr(p).encode())
        m.update(b"\0")
    return m.hexdigest()[:16]


class Project:
    def __init__(self, name, files, main, origin, share=False):
        self.name = name  # directory /w/<name>
        self.files = files if share else dict(files)  # rel -> text (schema files only)
        self.main = main
        self.origin = origin
        self.extras = False  # helper files / links present

    @property
    def root(self):
        return "/w/" + self.name

    def content_hash(self):
        return h(sorted(self.files.items()), self.main, self.extras)

    def messages(self):
        return MESSAGE_RE.findall(self.files.get(self.main, ""))

    def traditional(self):
        return not any("'" in re.sub(r'//[^\n]*|"(?:[^"\\\n]|\\.)*"', "", t) for t in self.files.values())


def import_closure(group_files, start):
    seen, todo = {}, [start]
    while todo:
        f = todo.pop()
        if f in seen or f not in group_files:
            continue
        seen[f] = group_files[f]
        for imp in IMPORT_RE.findall(group_files[f]):
            todo.append(posixpath.normpath(imp))
    return seen


# ------------------------------------------------------------------ projects
def corpus_project(rng, name):
    c = corpus()
    g = rng.choice(sorted(c))
    f = rng.choice(sorted(c[g]))
    files = import_closure(c[g], f)
    return Project(name, files, f, "corpus:%s/%s" % (g, f))


def generated_project(rng, name):
    """Valid multi-file project from the structured generator."""
    nshared = rng.weighted([(0, 4), (1, 4), (2, 2)])
    files = {}
    shared = []
    for k in range(nshared):
        s, _ = schemagen.generate(rng.sub("shared", k), fleet=False, name="shr" + schemagen.letters(k))
        fname = s.name + ".bitproto"
        text = s.text()
        if shared and rng.chance(0.5):
            # chain: a later shared file imports an earlier one
            prev = shared[-1]
            how = rng.choice([prev[0], "./" + prev[0], "../" + name + "/" + prev[0]])
            text = re.sub(r"^(proto %s;?[ \t]*\r?\n)" % re.escape(s.name), lambda mm: mm.group(1) + '\nimport "%s"\n' % how, text, count=1, flags=re.M)
        files[fname] = text
        shared.append((fname, s))
    main, _ = schemagen.generate(rng.sub("main"), fleet=False, name=rng.choice(["pkt", "main_proto", "drone"]))
    text = main.text()
    imports, uses = [], []
    for i, (fname, s) in enumerate(shared):
        as_name = None
        if rng.chance(0.4):
            as_name = "im" + schemagen.letters(i)
        spelled = rng.choice([fname, fname, "./" + fname, "../" + name + "/" + fname, "out/../" + fname, "./././" + fname])
        imports.append("import %s\"%s\"" % ((as_name + " ") if as_name else "", spelled))
        ns = as_name or s.name
        fields = []
        for d in s.defs:
            if d.kind in ("message", "enum", "alias") and len(fields) < 4 and rng.chance(0.7):
                ref = "%s.%s" % (ns, d.name)
                if rng.chance(0.3) and not (d.kind == "alias" and d.target.kind == "array"):
                    ref += "[%d]" % rng.randint(1, 4)
                fields.append("    %s u_%s = %d" % (ref, schemagen.letters(len(fields)), len(fields) + 1))
        if fields:
            uses.append("message Uses%s {\n%s\n}\n" % (ns.capitalize(), "\n".join(fields)))
        for d in s.defs:
            if d.kind == "const" and d.value is not None and rng.chance(0.5):
                uses.append("const FROM_%s_%s = %s.%s + 1\n" % (ns.upper(), d.name, ns, d.name))
                break
    if imports:
        text = re.sub(r"^(proto %s;?[ \t]*\r?\n)" % re.escape(main.name), lambda mm: mm.group(1) + "\n" + "\n".join(imports) + "\n", text, count=1, flags=re.M)
        text = text + "\n" + "\n".join(uses)
    mainfile = rng.choice(["main.bitproto", main.name + ".bitproto", "a.bitproto"])
    files[mainfile] = text
    p = Project(name, files, mainfile, "generated")
    if imports and rng.chance(0.6):
        # a second top-level file next to the first, importing the same children under other aliases
        other = compatible_edit(rng.sub("second"), text)
        for _ in range(2):
            other = _realias(rng.sub("second", _), other)
        p.files["second_" + mainfile] = other.replace("proto %s" % main.name, "proto second_%s" % main.name, 1)
        p.alt_mains = ["second_" + mainfile]
    return p


def template_project(rng, name):
    tpl = rng.choice(mutate.TEMPLATES)
    base = "proto tpl\n\n" if rng.chance(0.85) else ""
    tail = "\nmessage Tail {\n    bool ok = 1\n}\n" if rng.chance(0.5) else "\n"
    main = "t.bitproto"
    text = (base + tpl + tail).replace("@SELF@", main).replace("@DIR@", name)
    p = Project(name, {main: text}, main, "template")
    p.extras = True
    return p


def soup_project(rng, name):
    if rng.chance(0.5):
        text = mutate.grammar_walk(rng)
    else:
        text = mutate.random_tokens(rng, rng.randint(1, 60))
        if rng.chance(0.5):
            text = "proto soup\n" + text
    p = Project(name, {"s.bitproto": text}, "s.bitproto", "soup")
    p.extras = True
    return p


def mutated_project(rng, name, base: Project):
    files = dict(base.files)
    target = base.main if rng.chance(0.7) or len(files) == 1 else rng.choice(sorted(files))
    n = rng.weighted([(1, 6), (2, 3), (3, 2), (5, 1)])
    files[target] = mutate.mutate(rng, files[target], n).replace("@SELF@", base.main).replace("@DIR@", name)
    if rng.chance(0.08):
        files[target] = mutate.corrupt_bytes(rng, files[target])  # byte-level: possibly not valid UTF-8
    p = Project(name, files, base.main, "mutated:" + base.origin)
    p.extras = True
    return p


def project_fs(p: Project, img):
    """Lay a project out in the SimFS image."""
    root = p.root
    img["dirs"].append(root)
    img["dirs"].append(root + "/out")
    for rel, text in p.files.items():
        img["files"][root + "/" + rel] = text
    if p.extras:
        img["dirs"].append(root + "/sub")
        for rel, text in mutate.HELPER_FILES.items():
            if rel not in p.files:
                img["files"].setdefault(root + "/" + rel, text)
        img["symlinks"][root + "/x_link.bitproto"] = "x.bitproto"
        img["hardlinks"][root + "/x_hard.bitproto"] = root + "/x.bitproto"
        img["symlinks"][root + "/loop_link.bitproto"] = "loop_link2.bitproto"
        img["symlinks"][root + "/loop_link2.bitproto"] = "loop_link.bitproto"
        img["dirs"].append("/w/abs")
        img["files"].setdefault("/w/abs/x.bitproto", mutate.HELPER_FILES["x.bitproto"])
    img["symlinks"]["/w/ln_" + p.name] = root


def _realias(rng, text: str) -> str:
    class _R:  # force the realias branch of compatible_edit
        def __init__(self, r):
            self.r = r

        def weighted(self, pairs):
            return "realias"

        def __getattr__(self, k):
            return getattr(self.r, k)

    return compatible_edit(_R(rng), text)


def compatible_edit(rng, text: str) -> str:
    """A small edit that usually keeps a schema valid but changes what is
    generated from it (and from files importing it)."""
    toks = mutate.tokenize(text)
    kind = rng.weighted([("width", 4), ("append", 3), ("comment", 2), ("cap", 2), ("const", 2), ("realias", 3)])
    if kind == "realias":
        # the same child imported under another alias (qualifiers renamed consistently)
        imps = list(re.finditer(r'^(\s*import\s+)(?:([A-Za-z_]\w*)\s+)?"([^"\n]*)"', text, re.M))
        if imps:
            mm = rng.choice(imps)
            child = mm.group(3)
            old = mm.group(2)
            if old is None:
                # no alias so far: the qualifier is the child's proto name; only add one when it is guessable
                base = posixpath.splitext(posixpath.basename(child))[0]
                old = base if re.search(r"\b%s\." % re.escape(base), text) else None
                if old is None:
                    return text
            new = rng.choice(["al", "imp", "dep", "xx"]) + schemagen.letters(rng.below(26))
            if re.search(r"\b%s\b" % re.escape(new), text):
                return text
            head = text[: mm.start()] + mm.group(1) + new + ' "' + child + '"'
            rest = text[mm.end() :]
            rest = re.sub(r"\b%s\." % re.escape(old), new + ".", rest)
            return head + rest
    if kind == "width":
        idx = [i for i, t in enumerate(toks) if re.match(r"u?int\d+$", t) and not (i >= 2 and toks[i - 2] == ":")]
        if idx:
            i = rng.choice(idx)
            base = "uint" if toks[i].startswith("uint") else "int"
            toks[i] = base + str(rng.choice([1, 3, 7, 8, 9, 15, 16, 24, 31, 32, 33, 64]))
            return "".join(toks)
    if kind == "cap":
        idx = [i for i, t in enumerate(toks) if t.isdigit() and len(t) < 9 and i >= 1 and toks[i - 1] == "["]
        if idx:
            i = rng.choice(idx)
            toks[i] = str(int(toks[i]) + rng.randint(1, 3))
            return "".join(toks)
    if kind == "const":
        m = list(re.finditer(r"^(const\s+\w+\s*=\s*)(\d{1,17})\s*$", text, re.M))
        if m:
            mm = rng.choice(m)
            return text[: mm.start(2)] + str(int(mm.group(2)) + rng.randint(1, 5)) + text[mm.end(2) :]
    if kind == "comment":
        lines = text.split("\n")
        idx = [i for i, l in enumerate(lines) if re.match(r"\s*(message|enum|type|const)\b", l)]
        if idx:
            i = rng.choice(idx)
            pad = re.match(r"\s*", lines[i]).group(0)
            lines.insert(i, pad + "// edited: " + rng.choice(["v2", "see ticket 42", "do not remove"]))
            return "\n".join(lines)
    k = rng.below(1000)
    return text.rstrip("\n") + "\n\nmessage Added%s {\n    bool flag = 1\n    uint%d n = 2\n}\n" % (schemagen.letters(k), rng.choice([3, 8, 17]))


# --------------------------------------------------------------------- plans
LANGS = ["c", "py", "go"]


def path_style(rng, cwd, abs_path, proj: Project):
    st = rng.weighted([("abs", 3), ("rel", 4), ("dot", 2), ("link", 2), ("updown", 1)])
    if st == "abs":
        return abs_path
    if st == "link":
        return abs_path.replace(proj.root, "/w/ln_" + proj.name, 1)
    rel = posixpath.relpath(abs_path, cwd)
    if st == "dot":
        return "./" + rel
    if st == "updown":
        d, b = posixpath.split(rel)
        return posixpath.join(d, "out", "..", b) if d or True else rel
    return rel


def dir_style(rng, cwd, abs_dir, proj: Project):
    st = rng.weighted([("abs", 3), ("rel", 4), ("link", 2), ("slash", 1)])
    if st == "abs":
        return abs_dir
    if st == "link":
        return abs_dir.replace(proj.root, "/w/ln_" + proj.name, 1)
    rel = posixpath.relpath(abs_dir, cwd)
    if st == "slash":
        return rel + "/"
    return rel


def gen_farm_plan(seed: int, mode: str, n: int = 0):
    """A build farm / very long-lived process: many hundred DISTINCT schemas compiled one
    after another in one process (each tree dropped after use, the garbage collector left
    alone), then a sample of the early ones compiled again. Bounded caches evict, freed
    addresses are reused, counters grow."""
    rng = Rng(seed, "farm", mode)
    n = n or rng.randint(560, 820)
    img = {"dirs": ["/w", "/w/pa", "/w/pa/out"], "files": {}, "symlinks": {}, "hardlinks": {}, "cwd": "/w/pa"}
    keys, ops, texts = {}, [], {}

    def compile_op(k, lang, keyed):
        name = "m%d.bitproto" % k
        argv = [lang, name, "out"] + (["-q"] if rng.chance(0.5) else [])
        op = {"op": "cli", "argv": argv, "outdir_abs": "/w/pa/out"}
        if keyed and mode == "c18":
            kid = h("farm", texts[k], lang)
            keys.setdefault(kid, {"api": "cli", "dirname": "pa", "files": {name: texts[k]}, "extras": False, "main": name, "lang": lang, "opt": False, "filter": None, "endian": "both"})
            op["key"] = kid
        ops.append(op)

    for k in range(n):
        s, _ = schemagen.generate(rng.sub("schema", k), fleet=False, name="m%d" % k)
        texts[k] = s.text()
        img["files"]["/w/pa/m%d.bitproto" % k] = texts[k]
    sid = 0
    for k in range(n):
        lang = rng.choice(LANGS)
        if rng.chance(0.25):
            # API use with an explicit drop
            ops.append({"op": "parse", "sid": sid, "path": "m%d.bitproto" % k, "trad": False})
            ops.append({"op": "render", "sid": sid, "lang": lang, "outdir": "out", "outdir_abs": "/w/pa/out", "opt": False, "filter": None, "endian": "both"})
            ops.append({"op": "drop", "sid": sid})
            sid += 1
        else:
            compile_op(k, lang, keyed=(k % 9 == 0))
        if rng.chance(0.01):
            ops.append({"op": "jitter", "kind": "gc"})
    # compile a sample of the early schemas again, all languages, compared with goldens
    for k in rng.sample(range(n), min(40, n)):
        for lang in LANGS:
            compile_op(k, lang, keyed=True)
    plan = {
        "world": "compiler",
        "mode": mode,
        "seed": seed,
        "hashseed": Rng(seed, "env", "hashseed").below(4294967295) + 1,
        "knob_cache": True,
        "fs": img,
        "ops": ops,
        "faults": [],
    }
    return plan, keys


def gen_plan(seed: int, mode: str, scale: int = 1):
    """mode: 'c09' (mutation-heavy, unkeyed) | 'c18' (valid-heavy, keyed).
    scale > 1 (thorough tier, a third of the seeds): longer histories, more projects."""
    rng = Rng(seed, "workload", mode)
    cfg = Rng(seed, "swarm", mode)
    if scale > 1:
        if Rng(seed, "verylong").chance(0.012):
            if Rng(seed, "farmshape").chance(0.6):
                return gen_farm_plan(seed, mode)
            scale = 64  # a process that lives through more than a thousand operations (bounded caches evict, freed addresses are reused)
        elif Rng(seed, "long").chance(0.04):
            scale = 8  # a long-lived process: hundreds of operations (counters, bounded caches, "seen" sets)
        elif not Rng(seed, "scale").chance(0.34):
            scale = 1
    img = {"dirs": ["/w"], "files": {}, "symlinks": {}, "hardlinks": {}, "cwd": "/w"}
    projects = []
    nproj = (cfg.randint(2, 5) if mode == "c09" else cfg.randint(1, 3)) + min(scale - 1, 9)
    if mode == "c09":
        mix = [("mutated", cfg.randint(2, 8)), ("template", cfg.randint(1, 6)), ("soup", cfg.randint(0, 3)), ("corpus", 1), ("generated", cfg.randint(1, 4))]
    else:
        mix = [("corpus", cfg.randint(1, 5)), ("generated", cfg.randint(1, 5)), ("mutated", cfg.randint(0, 2)), ("template", cfg.randint(0, 1))]
    same_names = cfg.chance(0.5)
    for k in range(nproj):
        name = "p" + schemagen.letters(k)
        kind = rng.weighted(mix)
        pr = rng.sub("proj", k)
        if kind == "corpus":
            p = corpus_project(pr, name)
        elif kind == "generated":
            p = generated_project(pr, name)
        elif kind == "template":
            p = template_project(pr, name)
        elif kind == "soup":
            p = soup_project(pr, name)
        else:
            base = corpus_project(pr.sub("b"), name) if pr.chance(0.6) else generated_project(pr.sub("b"), name)
            p = mutated_project(pr, name, base)
        if mode == "c18" and projects and cfg.chance(0.3) and kind != "mutated":
            # two variants ("branches") of the same project built in one process: same file
            # names, same definition names at the same positions, small differences
            q = projects[-1]
            files = dict(q.files)
            er = pr.sub("variant")
            for _ in range(er.randint(1, 2)):
                tgt = er.choice(sorted(files))
                files[tgt] = compatible_edit(er, files[tgt])
            # imports spelled through the project directory must point into the variant's own directory
            files = {f: t.replace("../" + q.name + "/", "../" + name + "/") for f, t in files.items()}
            p = Project(name, files, q.main, "variant-of:" + q.origin)
            p.extras = q.extras
        if same_names and projects and rng.chance(0.5) and mode == "c18":
            # another project with the same main file name (and often the same proto /
            # message names) but different content: memo keyed by name would confuse them
            q = projects[-1]
            if q.main not in p.files:
                p.files[q.main] = p.files.pop(p.main)
                p.main = q.main
        projects.append(p)
    for p in projects:
        project_fs(p, img)
    # a project directory may hold several top-level files: each is a view of the same files
    for p in list(projects):
        for alt in getattr(p, "alt_mains", []):
            v = Project(p.name, p.files, alt, p.origin + ":second", share=True)
            v.extras = p.extras
            projects.append(v)

    keys = {}
    ops = []
    state = {"cwd": "/w", "sid": 0}
    versions = {p.name: 0 for p in projects}

    def keyable(p: Project) -> bool:
        # an absolute import path names a file of the simulated world (/w/abs/...) that the
        # real-file-system golden cannot have: such inputs are compiled but not compared
        return not any('"/' in t for t in p.files.values())

    def key_for(p: Project, lang, opt, filt, endian, check=False, api="cli"):
        """api='cli': the golden runs the command line with the same option values;
        api='render': the golden calls parse() + render() with exactly the same arguments
        (the command line maps some spellings differently: `-F ""` means 'no filter', the
        list [""] given to render() filters everything)."""
        if mode != "c18" or not keyable(p):
            return None
        kid = h(p.content_hash(), p.name, p.main, lang, bool(opt), filt, endian, check, api)
        if kid not in keys:
            keys[kid] = {
                "dirname": p.name,
                "files": dict(p.files),
                "extras": p.extras,
                "main": p.main,
                "lang": lang,
                "opt": bool(opt),
                "filter": filt,
                "endian": endian,
                "check": check,
                "api": api,
            }
        return kid

    def compile_opts(p: Project):
        lang = rng.weighted([("c", 5), ("py", 3), ("go", 3)])
        opt = rng.chance(0.3)
        filt = None
        endian = "both"
        if opt:
            if rng.chance(0.4):
                ms = p.messages()
                if ms:
                    filt = rng.sample(ms, rng.randint(1, min(3, len(ms))))
                    if rng.chance(0.35):
                        # unusual but plausible spellings of a message filter
                        text = p.files.get(p.main, "")
                        pm = re.search(r"^proto\s+(\w+)", text, re.M)
                        nested = re.findall(r"^\s+message\s+([A-Za-z_]\w*)", text, re.M)
                        extra = [
                            "NoSuchMessage",
                            "",
                            filt[0],  # duplicate
                            filt[0].lower(),
                            (pm.group(1) if pm else "x") + "." + filt[0],
                            filt[0] + "." + (nested[0] if nested else "Inner"),
                            (nested[0] if nested else "Inner"),
                            "A.B.C." + filt[0],
                            filt[0] + ".",
                            "." + filt[0],
                            " " + filt[0] + " ",
                            filt[0] + "'",
                        ]
                        filt.append(rng.choice(extra))
                        if rng.chance(0.3):
                            filt = [rng.choice(extra)]
            if rng.chance(0.5):
                endian = rng.choice(["little", "big", "both"])
        return lang, opt, filt, endian

    def outdir_choice(p: Project):
        k = rng.weighted([("default", 3), ("out", 5), ("root", 2)])
        if k == "default":
            return "", p.root
        d = p.root + "/out" if k == "out" else p.root
        return dir_style(rng, state["cwd"], d, p), d

    def snapshot(p: Project):
        q = Project(p.name, p.files, p.main, p.origin)
        q.extras = p.extras
        return q

    def api_task(p: Project):
        """parse -> [lint] -> renders, as separate scheduler steps."""
        steps = []
        sid = state["sid"]
        state["sid"] += 1
        trad = rng.chance(0.35)
        use_string = rng.chance(0.2)
        held = {}

        def parse_step():
            snap = held["snap"] = snapshot(p)  # what the parser will see
            path = path_style(rng, state["cwd"], p.root + "/" + p.main, p)
            held["cwd"] = state["cwd"]
            held["relative"] = not path.startswith("/")
            if use_string:
                with_path = mode == "c18" or rng.chance(0.7)
                # what a reader of the file would hand over: text mode translates \r\n and \r to \n
                # (keyed parse_string ops must see the same characters as the file-based golden)
                as_read = p.files[p.main].replace("\r\n", "\n").replace("\r", "\n") if mode == "c18" else p.files[p.main]
                if any(0xDC80 <= ord(ch) <= 0xDCFF for ch in as_read):
                    held["nokey"] = True  # undecodable bytes exist only in files; a buffer is always text
                    as_read = "".join(ch if not (0xDC80 <= ord(ch) <= 0xDCFF) else "\ufffd" for ch in as_read)
                if with_path and rng.chance(0.35):
                    # the language-server case: an unsaved editor buffer under the file's path
                    # (what is on disk is older); imports still resolve next to the file
                    br = rng.sub("buffer", sid)
                    if mode == "c18" and br.chance(0.7):
                        m0 = re.search(r"^proto\s+(\w+)", as_read, re.M)
                        s3, _ = schemagen.generate(br, fleet=False, name=(m0.group(1) if m0 else "buffered"))
                        as_read = s3.text().replace("\r\n", "\n").replace("\r", "\n")
                    else:
                        as_read = mutate.mutate(br, as_read, br.randint(1, 2)).replace("@SELF@", p.main).replace("@DIR@", p.name)
                        if mode == "c18":
                            as_read = as_read.replace("\r\n", "\n").replace("\r", "\n")
                    snap.files[snap.main] = as_read  # the compile key is the buffer, not the disk
                if with_path:
                    op = {"op": "parse_string", "sid": sid, "text": as_read, "filepath": path, "trad": trad}
                else:
                    # imports resolve against cwd: make cwd the project directory
                    ops.append({"op": "chdir", "path": p.root})
                    state["cwd"] = p.root
                    op = {"op": "parse_string", "sid": sid, "text": p.files[p.main], "filepath": "", "trad": trad}
                    held["nokey"] = True
            else:
                op = {"op": "parse", "sid": sid, "path": path, "trad": trad}
            if mode == "c18" and not held.get("nokey") and keyable(snap):
                kid = "P" + h(snap.content_hash(), snap.name, snap.main, trad)
                if kid not in keys:
                    keys[kid] = {"api": "parse", "dirname": snap.name, "files": dict(snap.files), "extras": snap.extras, "main": snap.main, "trad": trad}
                op["key"] = kid
            ops.append(op)

        steps.append(parse_step)
        if rng.chance(0.3):
            steps.append(lambda v=rng.below(6): ops.append({"op": "introspect", "sid": sid, "variant": v}))
        if rng.chance(0.5):
            steps.append(lambda: ops.append({"op": "lint", "sid": sid}))
        nr = rng.randint(1, 3) if mode == "c18" else rng.randint(1, 4)
        for _ in range(nr):
            lang, opt, filt, endian = compile_opts(p)
            if mode == "c18":
                opt = trad and opt
            else:
                opt = opt if rng.chance(0.8) else (not trad)
            if not opt:
                filt, endian = None, "both"

            def render_step(lang=lang, opt=opt, filt=filt, endian=endian):
                snap = held["snap"]
                outdir, outabs = outdir_choice(snap)
                if outdir == "" and held.get("relative") and state["cwd"] != held["cwd"]:
                    # the default outdir is derived from the (relative) source path when render()
                    # runs: a relative path only means the same file from the same cwd
                    ops.append({"op": "chdir", "path": held["cwd"]})
                    state["cwd"] = held["cwd"]
                op = {"op": "render", "sid": sid, "lang": lang, "outdir": outdir, "outdir_abs": outabs, "opt": opt, "filter": filt, "endian": endian}
                if not held.get("nokey"):
                    k = key_for(snap, lang, opt, filt, endian, api="render")
                    if k:
                        op["key"] = k
                ops.append(op)

            steps.append(render_step)
            if rng.chance(0.25):
                steps.append(lambda: ops.append({"op": "lint", "sid": sid}))
            if rng.chance(0.15):
                steps.append(lambda v=rng.below(6): ops.append({"op": "introspect", "sid": sid, "variant": v}))
        if rng.chance(0.8):
            # the caller lets go of the finished compilation (a language server keeps one tree per open file)
            steps.append(lambda: ops.append({"op": "drop", "sid": sid}))
        return steps

    def cli_task(p: Project):
        def step():
            path = path_style(rng, state["cwd"], p.root + "/" + p.main, p)
            if rng.chance(0.12):
                argv = ["-c", path]
                if rng.chance(0.3):
                    argv.append("-q")
                if rng.chance(0.2):
                    argv.append("-O")
                op = {"op": "cli", "argv": argv}
                ops.append(op)
                return
            lang, opt, filt, endian = compile_opts(p)
            argv = [lang, path]
            outdir, outabs = outdir_choice(p)
            if outdir:
                argv.append(outdir)
            if rng.chance(0.5):
                argv.append("-q")
            if opt:
                argv.append("-O")
                if filt:
                    argv += ["-F", ",".join(filt)]
                if endian != "both" or rng.chance(0.2):
                    argv += ["--endian", endian]
            elif mode == "c09" and rng.chance(0.1):
                argv += ["-F", "Foo"]
                filt = None
            op = {"op": "cli", "argv": argv, "outdir_abs": outabs}
            k = key_for(p, lang, opt, filt if opt else None, endian if opt else "both")
            if k:
                op["key"] = k
            if mode == "c09" and rng.chance(0.4):
                # the API's verdict on the same path in the same state, for cross-checking the exit status
                tmp = state["sid"]
                state["sid"] += 1
                ops.append({"op": "parse", "sid": tmp, "path": path, "trad": bool(opt)})
                ops.append({"op": "drop", "sid": tmp})
                op["paired_parse"] = len(ops) - 2
            ops.append(op)

        return [step]

    def weird_cli():
        argv = rng.choice(
            [
                [],
                ["-h"],
                ["-v"],
                ["zz", "nope.bitproto"],
                ["c"],
                ["c", "nope.bitproto"],
                ["c", "/w"],
                ["c", "/w/pa/x.bitproto", "/w/nodir"],
                ["-c", ""],
                ["py", "/w/pa/" + projects[0].main, "-O"],
                ["go", "/w/pa/" + projects[0].main, "--endian", "middle"],
                ["c", "/w/pa/" + projects[0].main, "/w/pa/" + projects[0].main],
                ["c", "/w/pa/" + projects[0].main, "-F", "X"],
                ["c", "/w/pa/" + projects[0].main, "-O", "-F", ""],
                ["c", "/w/pa/" + projects[0].main, "-O", "-F", ",,"],
                ["--", "c"],
            ]
        )
        ops.append({"op": "cli", "argv": argv})

    def sweep_task(p: Project):
        """Every language and mode for one project (the 'all accepted schemas x all target
        languages' half of C09): plain parse -> c, go, py; traditional parse -> c -O under the
        three --endian settings, go -O, c -O -F."""
        steps = []
        sid_a = state["sid"]
        sid_b = state["sid"] + 1
        state["sid"] += 2
        main = p.root + "/" + p.main
        out = p.root + "/out"
        steps.append(lambda: ops.append({"op": "parse", "sid": sid_a, "path": main, "trad": False}))
        for lang in ("c", "go", "py"):
            steps.append(lambda lang=lang: ops.append({"op": "render", "sid": sid_a, "lang": lang, "outdir": out, "outdir_abs": out, "opt": False, "filter": None, "endian": "both"}))
        steps.append(lambda: ops.append({"op": "lint", "sid": sid_a}))
        steps.append(lambda: ops.append({"op": "parse", "sid": sid_b, "path": main, "trad": True}))
        ms = p.messages()
        for lang, endian, filt in (("c", "both", None), ("c", "little", None), ("c", "big", None), ("go", "both", None), ("c", "both", ms[:1] or None), ("go", "big", ms[-1:] or None)):
            steps.append(lambda lang=lang, endian=endian, filt=filt: ops.append({"op": "render", "sid": sid_b, "lang": lang, "outdir": out, "outdir_abs": out, "opt": True, "filter": filt, "endian": endian}))
        return steps

    # build the task list, then let the seeded scheduler interleave the steps
    ntasks = (cfg.randint(4, 10) if mode == "c09" else cfg.randint(3, 8)) * scale
    tasks = []
    for t in range(ntasks):
        p = rng.choice(projects)
        tasks.append(api_task(p) if rng.chance(0.6) else cli_task(p))
    if mode == "c09" and cfg.chance(0.6):
        cands = [p for p in projects if p.origin in ("generated", "template") or p.origin.startswith("corpus:")] or projects
        tasks.append(sweep_task(rng.choice(cands)))
    p_restart = cfg.choice([0.0, 0.03, 0.08]) if scale < 64 else 0.0  # a very long history must stay one process
    p_jitter = cfg.choice([0.0, 0.1, 0.25])
    p_edit = cfg.choice([0.0, 0.05, 0.12])
    p_chdir = cfg.choice([0.0, 0.08, 0.2])
    p_tamper = cfg.choice([0.0, 0.05, 0.12]) if mode == "c18" else cfg.choice([0.0, 0.0, 0.05])
    ntamper = 0
    interleave = cfg.chance(0.7)
    sched = Rng(seed, "sched", mode)
    live = [t for t in tasks if t]
    nedit = 0
    while live:
        t = sched.choice(live) if interleave else live[0]
        step = t.pop(0)
        step()
        if not t:
            live.remove(t)
        # environment events between steps
        if sched.chance(p_restart):
            ops.append({"op": "restart"})
        if sched.chance(p_jitter):
            k = sched.choice(["heap", "heap", "gc", "gc_off", "gc_on", "clock", "env"])
            if k == "heap":
                ops.append({"op": "jitter", "kind": "heap", "alloc": [sched.below(4000) for _ in range(sched.randint(1, 4))], "free": [sched.below(8) for _ in range(sched.randint(0, 2))]})
            elif k == "clock":
                ops.append({"op": "jitter", "kind": "clock", "dt": sched.choice([0.001, 1.0, 86400.0, 31536000.0, -3600.0])})
            elif k == "env":
                name, value = sched.choice([("TZ", "Asia/Tokyo"), ("COLUMNS", "40"), ("NO_COLOR", "1"), ("TERM", "dumb"), ("HOME", "/w"), ("LANG", "C")])
                ops.append({"op": "jitter", "kind": "env", "name": name, "value": value})
            else:
                ops.append({"op": "jitter", "kind": k})
        if sched.chance(p_chdir):
            p = sched.choice(projects)
            d = sched.choice(["/w", p.root, p.root + "/out", "/"])
            ops.append({"op": "chdir", "path": d})
            state["cwd"] = d
        if sched.chance(p_edit) and nedit < 3 * scale:
            # edit-and-recompile: same path, different content (language-server pattern)
            p = sched.choice(projects)
            nedit += 1
            er = rng.sub("edit", nedit)
            target = p.main
            others = sorted(f for f in p.files if f != p.main)
            if others and er.chance(0.45):
                target = er.choice(others)  # an IMPORTED file changes on disk; the main file does not
            if target != p.main:
                newtext = compatible_edit(er, p.files[target]) if (mode == "c18" or er.chance(0.5)) else mutate.mutate(er, p.files[target], er.randint(1, 2))
            elif mode == "c18" and er.chance(0.7):
                # a different valid schema under the same path (often the same proto and type names)
                m = re.search(r"^proto\s+(\w+)", p.files[p.main], re.M)
                if len(p.files) == 1 and er.chance(0.6):
                    s2, _ = schemagen.generate(er, fleet=False, name=(m.group(1) if m and er.chance(0.7) else "edited"))
                    newtext = s2.text()
                else:
                    newtext = compatible_edit(er, p.files[p.main])
            else:
                newtext = mutate.mutate(er, p.files[p.main], er.randint(1, 3)).replace("@SELF@", p.main).replace("@DIR@", p.name)
            p.files[target] = newtext
            if er.chance(0.35):
                # saved by rename / checked out again: the path gets a NEW file (another inode;
                # with the recycling knob possibly the number of some other deleted file)
                ops.append({"op": "unlink", "path": p.root + "/" + target})
            ops.append({"op": "write", "path": p.root + "/" + target, "text": newtext})
            # recompile right away, and once more later
            for st in cli_task(p):
                st()
            live.append(api_task(p))
        if sched.chance(p_tamper) and ntamper < 3 * scale:
            # someone else modified what an earlier compile left in an output directory;
            # the next compile of the same thing must not care
            ntamper += 1
            tr = rng.sub("tamper", ntamper)
            p = tr.choice(projects)
            d = tr.choice([p.root + "/out", p.root + "/out", p.root])
            how = tr.choice(["crlf", "crlf", "cr", "truncate", "empty", "append", "bom", "same_size", "same_crc32", "same_crc32", "same_head_tail", "swap_bytes", "strip_final_newline", "trailing_ws", "touch_future", "touch_past", "delete", "delete"])
            ops.append({"op": "tamper", "dir": d, "pick": tr.below(16), "how": how, "frac": tr.choice([0, 10, 50, 90, 99])})
            for lang in tr.sample(LANGS, tr.randint(1, 3)):
                argv = [lang, p.root + "/" + p.main, d]
                if tr.chance(0.5):
                    argv.append("-q")
                op = {"op": "cli", "argv": argv, "outdir_abs": d}
                k = key_for(p, lang, False, None, "both")
                if k:
                    op["key"] = k
                ops.append(op)
        if mode == "c09" and sched.chance(0.04):
            weird_cli()
    if mode == "c09" and cfg.chance(0.3):
        # unhealthy environments (legitimate OSError territory): removed cwd, missing outdir
        p = projects[0]
        ops.append({"op": "chdir", "path": p.root + "/out"})
        ops.append({"op": "rmtree", "path": p.root + "/out"})
        ops.append({"op": "parse", "sid": 9000, "path": "../" + p.main})
        ops.append({"op": "parse_string", "sid": 9001, "text": p.files[p.main], "filepath": ""})
        ops.append({"op": "render", "sid": 9000, "lang": "c", "outdir": "", "outdir_abs": p.root})
        ops.append({"op": "render", "sid": 9001, "lang": "py", "outdir": "", "outdir_abs": p.root})
        ops.append({"op": "render", "sid": 9000, "lang": "c", "outdir": "nodir", "outdir_abs": p.root})
        ops.append({"op": "cli", "argv": ["c", "../" + p.main]})
        ops.append({"op": "cli", "argv": ["py", p.root + "/" + p.main, "out"]})
        ops.append({"op": "chdir", "path": "/w"})
        ops.append({"op": "mkdir", "path": p.root + "/out"})
    # tuning knob of the simulated world, drawn per run: the file system's preferred block size
    # = the size of CPython's buffer above the raw file (how many write(2) calls a file takes,
    # where a torn write can end, how much a kill loses)
    img["blksize"] = Rng(seed, "env", "blksize").choice([512, 512, 4096, 4096, 4096, 65536])
    img["dir_order"] = Rng(seed, "env", "dirorder").choice([0, 1, 2, 3])
    img["recycle_inodes"] = Rng(seed, "env", "recycle").chance(0.5)
    plan = {
        "world": "compiler",
        "mode": mode,
        "seed": seed,
        "hashseed": Rng(seed, "env", "hashseed").below(4294967295) + 1,
        "knob_cache": not cfg.chance(0.15),
        "fs": img,
        "ops": ops,
        "faults": [],
    }
    return plan, keys


# -------------------------------------------------------------------- faults
def gen_faults(seed: int, plan: dict, res0: dict):
    """Aim faults using the seam traces of the fault-free pass."""
    rng = Rng(seed, "faults", plan.get("mode", ""))
    cfg = Rng(seed, "faultcfg", plan.get("mode", ""))
    if cfg.chance(0.25):
        return []  # fault-free run
    kinds_enabled = [k for k, pr in (("errno", 0.85), ("crash", 0.5), ("power", 0.5)) if cfg.chance(pr)] or ["errno"]
    weights = {"errno": 6, "crash": 2, "power": 2}
    cands = []
    for rec in res0["history"]:
        seams = rec.get("seams") or []
        for n, sk in enumerate(seams, start=1):
            cands.append((rec["i"], n, sk, len(seams)))
    if not cands:
        return []
    nf = cfg.weighted([(1, 5), (2, 3), (3, 2), (5, 1)])
    double = cfg.chance(0.3)
    faults, used = [], set()
    for _ in range(nf * 4):
        if len(faults) >= nf:
            break
        if rng.chance(0.5):
            # in-flight placement: not the first call of the op
            inflight = [c for c in cands if c[1] > 1]
            i, n, sk, total = rng.choice(inflight or cands)
        else:
            i, n, sk, total = rng.choice(cands)
        same_op = [f for f in faults if f["op"] == i]
        # usually one fault per operation; sometimes a second, later one in the same operation
        # (what error handling and clean-up code meets: the retry or the clean-up fails as well)
        if (i, n) in used or (same_op and (len(same_op) >= 2 or not double or any(f["kind"] == "crash" for f in same_op))):
            continue
        used.add((i, n))
        pick = rng.weighted([(k, weights[k]) for k in sorted(kinds_enabled)])
        if pick == "errno":
            ks = FAULTS_BY_CALL.get(sk)
            if not ks:
                continue
            f = {"op": i, "call": n, "kind": rng.choice(ks)}
            if rng.chance(0.3):
                f["sticky"] = rng.choice([1, 1, 2, 4])  # the condition persists for this many operations
            if sk == "write":
                f["frac"] = rng.choice([0.0, 0.1, 0.5, 0.9, 0.999])
        else:
            f = {"op": i, "call": n, "kind": "crash", "power": pick == "power", "tear": rng.below(1 << 16)}
            if sk == "write":
                f["frac"] = rng.choice([0.0, 0.3, 0.7, 0.999])
        faults.append(f)
    faults.sort(key=lambda f: (f["op"], f["call"]))
    return faults
