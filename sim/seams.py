"""Seams: everything through which the compiler process can observe or touch
the outside world is routed to the simulator while a system operation runs.

No hook in /repo is needed. bitproto looks up `open` and the `os` functions at
call time, so replacing `builtins.open`, `io.open` and the relevant attributes
of `os` / `posixpath` for the duration of an operation (a "window") captures
every file-system call -- including ones a refactor might route through
`pathlib`, `os.path.exists`, `os.makedirs` and friends. `os._exit` becomes
SimExit. Clocks, randomness and identity sources are *tripwires*: permanently
replaced by simulator values, and every read from inside a window is counted.
"""

import builtins
import io
import os
import posixpath
import sys
import time as _time

from .simfs import HarnessError, SimFS

_R_DUP, _R_DUP2, _R_CLOSE, _R_FSTAT, _R_MEMFD, _R_PREAD = os.dup, os.dup2, os.close, os.fstat, getattr(os, "memfd_create", None), os.pread

REAL = {
    "open": builtins.open,
    "io_open": io.open,
    "os__exit": os._exit,
    "time": _time.time,
    "monotonic": _time.monotonic,
    "perf_counter": _time.perf_counter,
    "stderr": sys.stderr,
    "stdout": sys.stdout,
}


class SimExit(BaseException):
    """os._exit(code) called by the system under test."""

    def __init__(self, code):
        super().__init__(code)
        self.code = code


class StepBudgetExceeded(BaseException):
    """Deterministic definition of 'hang': the step budget of the operation ran out."""


class WallTimeout(BaseException):
    """Backstop for stalls invisible to step counting (loops inside C code)."""


# ----------------------------------------------------------------- step clock
class StepClock:
    """Virtual time = number of Python function entries + backward jumps
    (sys.monitoring PY_START | JUMP) executed inside windows."""

    TOOL = 4
    REARM = 2_000_000

    def __init__(self) -> None:
        self.budget = None
        self.mon = sys.monitoring
        self.count = 0
        self.limit = None
        self.total = 0
        self.active = False
        self.tripped = False
        try:
            self.mon.use_tool_id(self.TOOL, "verif-stepclock")
        except ValueError:
            pass
        ev = self.mon.events
        self.mon.register_callback(self.TOOL, ev.PY_START, self._on_start)
        self.mon.register_callback(self.TOOL, ev.JUMP, self._on_jump)

    def _on_start(self, code, offset):
        if code.co_filename.startswith("<frozen importlib"):
            # byte-code cache hits and misses take different paths through the
            # import system; virtual time must not depend on the cache state
            return self.mon.DISABLE
        self.count += 1
        if self.limit is not None and self.count > self.limit:
            self._trip()

    def _trip(self):
        # Raise into the running code. Re-arm a little later, so that unwinding
        # (finally blocks, generator finalisers, the harness's own stop()) is
        # not interrupted again, while a loop that swallows the exception is.
        self.tripped = True
        self.limit = self.count + self.REARM
        raise StepBudgetExceeded(self.budget)

    def _on_jump(self, code, src, dst):
        if code.co_filename.startswith("<frozen importlib"):
            return self.mon.DISABLE
        if dst < src:
            self.count += 1
            if self.limit is not None and self.count > self.limit:
                self._trip()

    def start(self, limit) -> None:
        self.count = 0
        self.limit = limit
        self.budget = limit
        self.tripped = False
        self.active = True
        ev = self.mon.events
        self.mon.set_events(self.TOOL, ev.PY_START | ev.JUMP)

    def stop(self) -> int:
        self.mon.set_events(self.TOOL, 0)
        self.active = False
        self.limit = None
        n = self.count
        self.total += n
        return n


# ------------------------------------------------------------------ tripwires
class Tripwires:
    """Clock / randomness / identity sources. Installed once per worker process.
    Values are simulator-controlled and jump between operations; reads from
    inside a window are counted in `touched`."""

    def __init__(self) -> None:
        self.now = 1_700_000_000.0  # virtual epoch seconds
        self.in_window = False
        self.touched = {}
        self.installed = False

    def _touch(self, name):
        if self.in_window:
            self.touched[name] = self.touched.get(name, 0) + 1

    def advance(self, dt: float) -> None:
        self.now += dt

    def install(self) -> None:
        if self.installed:
            return
        self.installed = True
        tw = self
        import datetime as _dt
        import random as _random

        def fake_time():
            tw._touch("time.time")
            return tw.now

        def fake_time_ns():
            tw._touch("time.time_ns")
            return int(tw.now * 1e9)

        def fake_monotonic():
            tw._touch("time.monotonic")
            return tw.now - 1_699_000_000.0

        def fake_monotonic_ns():
            tw._touch("time.monotonic_ns")
            return int((tw.now - 1_699_000_000.0) * 1e9)

        real_localtime, real_gmtime, real_strftime, real_ctime, real_asctime = (
            _time.localtime,
            _time.gmtime,
            _time.strftime,
            _time.ctime,
            _time.asctime,
        )

        def fake_localtime(secs=None):
            if secs is None:
                tw._touch("time.localtime")
                secs = tw.now
            return real_gmtime(secs)

        def fake_gmtime(secs=None):
            if secs is None:
                tw._touch("time.gmtime")
                secs = tw.now
            return real_gmtime(secs)

        def fake_strftime(fmt, t=None):
            if t is None:
                tw._touch("time.strftime")
                t = real_gmtime(tw.now)
            return real_strftime(fmt, t)

        def fake_ctime(secs=None):
            if secs is None:
                tw._touch("time.ctime")
                secs = tw.now
            return real_asctime(real_gmtime(secs))

        def fake_asctime(t=None):
            if t is None:
                tw._touch("time.asctime")
                t = real_gmtime(tw.now)
            return real_asctime(t)

        _time.time = fake_time
        _time.time_ns = fake_time_ns
        _time.monotonic = fake_monotonic
        _time.monotonic_ns = fake_monotonic_ns
        _time.perf_counter = fake_monotonic
        _time.perf_counter_ns = fake_monotonic_ns
        _time.localtime = fake_localtime
        _time.gmtime = fake_gmtime
        _time.strftime = fake_strftime
        _time.ctime = fake_ctime
        _time.asctime = fake_asctime

        real_datetime, real_date = _dt.datetime, _dt.date

        class SimDateTime(real_datetime):
            @classmethod
            def now(cls, tz=None):
                tw._touch("datetime.now")
                return real_datetime.fromtimestamp(tw.now, tz or _dt.timezone.utc).replace(tzinfo=tz)

            @classmethod
            def utcnow(cls):
                tw._touch("datetime.utcnow")
                return real_datetime.fromtimestamp(tw.now, _dt.timezone.utc).replace(tzinfo=None)

            @classmethod
            def today(cls):
                tw._touch("datetime.today")
                return real_datetime.fromtimestamp(tw.now, _dt.timezone.utc).replace(tzinfo=None)

        class SimDate(real_date):
            @classmethod
            def today(cls):
                tw._touch("date.today")
                return real_datetime.fromtimestamp(tw.now, _dt.timezone.utc).date()

        SimDateTime.__name__ = SimDateTime.__qualname__ = "datetime"
        SimDate.__name__ = SimDate.__qualname__ = "date"
        _dt.datetime = SimDateTime
        _dt.date = SimDate

        real_urandom = os.urandom

        def fake_urandom(n):
            tw._touch("os.urandom")
            # deterministic bytes derived from virtual time
            import hashlib

            out = b""
            k = 0
            while len(out) < n:
                out += hashlib.sha256(b"urandom%f/%d" % (tw.now, k)).digest()
                k += 1
            return out[:n]

        os.urandom = fake_urandom
        import platform as _platform
        import socket as _socket

        _socket.gethostname = lambda: (tw._touch("socket.gethostname"), "simhost")[1]
        _socket.getfqdn = lambda name="": (tw._touch("socket.getfqdn"), "simhost.invalid")[1]
        _platform.node = lambda: (tw._touch("platform.node"), "simhost")[1]
        os.getlogin = lambda: (tw._touch("os.getlogin"), "simuser")[1]
        os.getpid = lambda: (tw._touch("os.getpid"), 4242)[1]
        os.getppid = lambda: (tw._touch("os.getppid"), 4241)[1]
        for name in ("random", "randint", "randrange", "choice", "shuffle", "sample", "getrandbits", "uniform", "choices"):
            real = getattr(_random, name)

            def make(real=real, name=name):
                def fake(*a, **k):
                    tw._touch("random." + name)
                    return real(*a, **k)

                return fake

            setattr(_random, name, make())
        _random.seed(0)
        # sources of names/ids that bypass os.urandom at the Python level
        _random._urandom = fake_urandom
        real_Random = _random.Random
        seq = [0]

        class SimRandom(real_Random):
            """random.Random() without a seed asks the kernel for entropy: give it a
            simulator-controlled seed instead (one forgotten source breaks replay)."""

            def __init__(self, x=None):
                if x is None:
                    tw._touch("random.Random()")
                    seq[0] += 1
                    x = 0x5EED0000 + seq[0]
                super().__init__(x)

            def seed(self, a=None, version=2):
                if a is None:
                    seq[0] += 1
                    a = 0x5EED0000 + seq[0]
                super().seed(a, version)

        SimRandom.__name__ = SimRandom.__qualname__ = "Random"
        _random.Random = SimRandom
        import tempfile as _tempfile

        _tempfile._Random = SimRandom

        class _Names:
            """Deterministic temporary-file names."""

            def __init__(self):
                self.n = 0

            def __iter__(self):
                return self

            def __next__(self):
                self.n += 1
                return "sim%06d" % self.n

        _tempfile._name_sequence = _Names()


# tempfile binds os.unlink as a default argument at import time: look it up at call time instead,
# so that the delete-on-close of a NamedTemporaryFile inside a window lands on the simulated file
# system (and never on the real one). Harmless outside a window: os.unlink is the real one there.
def _late_bound_tempfile_unlink():
    import tempfile as _tempfile

    _cl = getattr(getattr(_tempfile, "_TemporaryFileCloser", None), "cleanup", None)
    if _cl is not None and _cl.__defaults__ and len(_cl.__defaults__) == 2:
        _cl.__defaults__ = (_cl.__defaults__[0], lambda p: os.unlink(p))


_late_bound_tempfile_unlink()


# ------------------------------------------------------------------ routers
# Code that binds a function at import time (`from os import replace`, `from io import open`,
# a default argument) would keep the real function and walk past the simulated file system. So
# every function a window takes over is replaced ONCE, before the system under test is imported,
# by a stable router; a window only changes where the router leads. Outside a window it leads
# to the real function.
_ROUTES = {}  # (module name, attribute) -> [module, real function, current target, router]
_ROUTED_POSIXPATH = ("samefile", "exists", "isfile", "isdir", "islink", "lexists")


def _make_router(mod, name):
    key = (mod.__name__, name)
    if key in _ROUTES or not hasattr(mod, name):
        return
    real = getattr(mod, name)
    cell = [mod, real, real, None]

    def router(*a, **k):
        return cell[2](*a, **k)

    for attr in ("__name__", "__qualname__", "__doc__"):
        try:
            setattr(router, attr, getattr(real, attr))
        except (AttributeError, TypeError):
            pass
    router._verif_real = real
    cell[3] = router
    _ROUTES[key] = cell
    setattr(mod, name, router)


def install_routers() -> None:
    """Idempotent. Must run before the system under test is imported."""
    _make_router(builtins, "open")
    _make_router(io, "open")
    for name in _OS_FUNCS + _UNMODELLED + ("_exit",):
        _make_router(os, name)
    for name in _ROUTED_POSIXPATH:
        _make_router(posixpath, name)
    try:
        import fcntl as _fcntl

        for name in ("flock", "lockf"):
            _make_router(_fcntl, name)
    except ImportError:
        pass


def _routes_to_window() -> None:
    """After a window has put its functions into the modules: lead the routers there and put
    the routers back into the modules."""
    for (modname, name), cell in _ROUTES.items():
        mod, real, _, router = cell
        cur = getattr(mod, name)
        if cur is not router:
            cell[2] = cur
            setattr(mod, name, router)


def _routes_to_real() -> None:
    for (modname, name), cell in _ROUTES.items():
        mod, real, _, router = cell
        cell[2] = real
        if getattr(mod, name, None) is not router:
            setattr(mod, name, router)


class _Capture(io.TextIOWrapper):
    """sys.stdout / sys.stderr inside a window: a genuine text stream (reconfigure, buffer,
    encoding, fileno all there) whose bytes the simulator keeps."""

    def __init__(self, fd: int):
        self._bytes = io.BytesIO()
        super().__init__(self._bytes, encoding="utf-8", errors="backslashreplace", write_through=True)
        self._fd = fd

    def fileno(self):
        return self._fd

    def isatty(self):
        return False

    def getvalue(self) -> str:
        try:
            self.flush()
        except ValueError:
            pass
        return self._bytes.getvalue().decode("utf-8", "replace")

    def close(self):
        pass  # closing sys.stdout must not lose what was captured


# ------------------------------------------------------------------- window
_OS_FUNCS = ("listxattr", "getxattr", "setxattr", "removexattr", "lseek", "sendfile", "stat", "lstat", "getcwd", "chdir", "readlink", "listdir", "mkdir", "unlink", "remove", "rmdir", "rename", "replace", "access", "open", "write", "read", "close", "fsync", "fdatasync", "fstat", "utime", "scandir", "fdopen", "chmod", "lchmod", "fchmod", "chown", "lchown", "fchown", "symlink", "link", "truncate", "ftruncate")
_UNMODELLED = ("mkfifo", "mknod", "statvfs", "fwalk", "dup", "dup2", "pipe", "openpty", "copy_file_range", "splice", "pread", "pwrite", "readv", "writev")


class Window:
    """Context manager: route the process's file system, exit and diagnostics
    to the simulator for the duration of one system operation."""

    def __init__(self, fs: SimFS, tw: Tripwires, argv=None):
        self.fs = fs
        self.tw = tw
        self.argv = argv
        self.saved = {}
        self.stderr = _Capture(2)
        self.stdout = _Capture(1)

    def __enter__(self):
        fs = self.fs
        sv = self.saved
        sv["builtins.open"] = builtins.open
        sv["io.open"] = io.open
        builtins.open = fs.open
        io.open = fs.open
        for name in _OS_FUNCS:
            if hasattr(os, name):
                sv["os." + name] = getattr(os, name)
        os.stat = fs.stat
        os.lstat = fs.lstat
        os.getcwd = fs.getcwd
        os.chdir = fs.chdir
        os.readlink = fs.readlink
        os.listdir = fs.listdir
        os.mkdir = fs.mkdir
        os.unlink = fs.unlink
        os.remove = fs.unlink
        os.rmdir = fs.rmdir
        os.rename = fs.rename
        os.replace = fs.rename
        os.access = fs.access
        _r = lambda f: getattr(f, "_verif_real", f)  # (the saved attribute may be a router)
        real_write, real_read, real_close, real_fsync, real_fstat = _r(sv["os.write"]), _r(sv["os.read"]), _r(sv["os.close"]), _r(sv["os.fsync"]), _r(sv["os.fstat"])
        os.open = fs.os_open
        os.write = lambda fd, data: fs.os_write(fd, data) if fd >= fs.FD_BASE else real_write(fd, data)
        os.read = lambda fd, n: fs.os_read(fd, n) if fd >= fs.FD_BASE else real_read(fd, n)
        os.close = lambda fd: fs.os_close(fd) if fd >= fs.FD_BASE else real_close(fd)
        os.fsync = lambda fd: fs.os_fsync(fd) if (not isinstance(fd, int) or fd >= fs.FD_BASE) else real_fsync(fd)
        os.fdatasync = os.fsync
        os.fstat = lambda fd: fs.os_fstat(fd) if fd >= fs.FD_BASE else real_fstat(fd)
        # extended attributes: a file system without any (what tmpfs and most build hosts show)
        import errno as _errno

        def _xattr_path(p, follow_symlinks=True):
            if isinstance(p, int):
                fs.os_fstat(p)
            else:
                fs.stat(p, follow_symlinks=follow_symlinks)

        def _listxattr(path=None, *, follow_symlinks=True):
            _xattr_path("." if path is None else path, follow_symlinks)
            return []

        def _getxattr(path, attribute, *, follow_symlinks=True):
            _xattr_path(path, follow_symlinks)
            raise OSError(_errno.ENODATA, os.strerror(_errno.ENODATA), os.fspath(path) if not isinstance(path, int) else None)

        def _setxattr(path, attribute, value, flags=0, *, follow_symlinks=True):
            _xattr_path(path, follow_symlinks)
            raise OSError(_errno.ENOTSUP, os.strerror(_errno.ENOTSUP), os.fspath(path) if not isinstance(path, int) else None)

        if hasattr(os, "listxattr"):
            os.listxattr, os.getxattr, os.setxattr, os.removexattr = _listxattr, _getxattr, _setxattr, _getxattr
        real_lseek, real_sendfile = _r(sv["os.lseek"]), (_r(sv["os.sendfile"]) if sv.get("os.sendfile") is not None else None)
        os.lseek = lambda fd, pos, how: fs.os_lseek(fd, pos, how) if fd >= fs.FD_BASE else real_lseek(fd, pos, how)
        if real_sendfile is not None:
            os.sendfile = lambda out_fd, in_fd, offset, count: fs.os_sendfile(out_fd, in_fd, offset, count) if (out_fd >= fs.FD_BASE or in_fd >= fs.FD_BASE) else real_sendfile(out_fd, in_fd, offset, count)
        try:
            import fcntl as _fcntl

            for name in ("flock", "lockf"):
                sv["fcntl." + name] = getattr(_fcntl, name)
                setattr(_fcntl, name, (lambda real: lambda fd, *a: None if (fd if isinstance(fd, int) else fd.fileno()) >= fs.FD_BASE else real(fd, *a))(_r(getattr(_fcntl, name))))
        except ImportError:
            pass
        os.utime = fs.utime
        os.chmod = fs.chmod
        os.fchmod = fs.chmod
        if hasattr(os, "lchmod"):
            os.lchmod = lambda p, m: fs.chmod(p, m, follow_symlinks=False)
        os.chown = fs.chown
        os.fchown = fs.chown
        os.lchown = lambda p, u, g: fs.chown(p, u, g, follow_symlinks=False)
        os.symlink = fs.symlink
        os.link = fs.link
        os.truncate = fs.truncate
        os.ftruncate = fs.truncate
        os.scandir = fs.scandir
        os.fdopen = lambda fd, *a, **k: fs.fdopen(fd, *a, **k) if fd >= fs.FD_BASE else _r(sv["os.fdopen"])(fd, *a, **k)

        def unmodelled(name):
            def f(*a, **k):
                raise HarnessError("os.%s is not modelled by SimFS" % name)

            return f

        for name in _UNMODELLED:
            if hasattr(os, name):
                sv["os." + name] = getattr(os, name)
                setattr(os, name, unmodelled(name))
        # posixpath helpers that bypass os.stat via C fast paths
        for name in ("samefile", "exists", "isfile", "isdir", "islink", "lexists"):
            sv["posixpath." + name] = getattr(posixpath, name)
        posixpath.samefile = fs.samefile

        def _exists(p):
            try:
                fs.stat(p)
                return True
            except (OSError, ValueError):
                return False

        def _lexists(p):
            try:
                fs.lstat(p)
                return True
            except (OSError, ValueError):
                return False

        def _kind(p, kind, follow=True):
            try:
                st = fs.stat(p, follow_symlinks=follow)
            except (OSError, ValueError):
                return False
            import stat as _s

            return {"f": _s.S_ISREG, "d": _s.S_ISDIR, "l": _s.S_ISLNK}[kind](st.st_mode)

        posixpath.exists = _exists
        posixpath.lexists = _lexists
        posixpath.isfile = lambda p: _kind(p, "f")
        posixpath.isdir = lambda p: _kind(p, "d")
        posixpath.islink = lambda p: _kind(p, "l", follow=False)

        sv["os._exit"] = os._exit

        def sim_exit(code=0):
            # os._exit flushes nothing: what sits in userspace buffers of open files is lost
            for sf in list(fs.open_files):
                sf._abandon()
            raise SimExit(code)

        os._exit = sim_exit
        sv["sys.stderr"], sv["sys.stdout"], sv["sys.argv"] = sys.stderr, sys.stdout, sys.argv
        sys.stderr, sys.stdout = self.stderr, self.stdout
        # diagnostics that bypass sys.stderr (a logging handler bound at import time, a C
        # extension, os.write(2, ...)) still count as "reported": capture descriptor 2 as well
        self.fd2_len = 0
        self._fd2 = None
        self.fd1_len = 0
        self._fd1 = None
        if _R_MEMFD is not None:
            try:
                sv["sys.stderr"].flush()
            except Exception:
                pass
            mem = _R_MEMFD("verif-fd2")
            self._fd2 = (_R_DUP(2), mem)
            _R_DUP2(mem, 2)
            # descriptor 1 likewise (the worker's result channel is a duplicate made earlier)
            try:
                sv["sys.stdout"].flush()
            except Exception:
                pass
            mem1 = _R_MEMFD("verif-fd1")
            self._fd1 = (_R_DUP(1), mem1)
            _R_DUP2(mem1, 1)
        if self.argv is not None:
            sys.argv = list(self.argv)
        _routes_to_window()
        self.tw.in_window = True
        return self

    def __exit__(self, et, ev, tb):
        self.tw.in_window = False
        sv = self.saved
        if self._fd2 is not None:
            saved2, mem = self._fd2
            _R_DUP2(saved2, 2)
            try:
                self.fd2_len = _R_FSTAT(mem).st_size
                self.fd2_text = _R_PREAD(mem, min(self.fd2_len, 4000), 0).decode("utf-8", "replace") if self.fd2_len else ""
            finally:
                _R_CLOSE(mem)
                _R_CLOSE(saved2)
            self._fd2 = None
        if self._fd1 is not None:
            saved1, mem1 = self._fd1
            _R_DUP2(saved1, 1)
            try:
                self.fd1_len = _R_FSTAT(mem1).st_size
                self.fd1_text = _R_PREAD(mem1, min(self.fd1_len, 4000), 0).decode("utf-8", "replace") if self.fd1_len else ""
            finally:
                _R_CLOSE(mem1)
                _R_CLOSE(saved1)
            self._fd1 = None
        builtins.open = sv["builtins.open"]
        io.open = sv["io.open"]
        for key, val in sv.items():
            mod, _, name = key.partition(".")
            if mod == "os":
                setattr(os, name, val)
            elif mod == "posixpath":
                setattr(posixpath, name, val)
            elif mod == "fcntl":
                import fcntl as _fcntl

                setattr(_fcntl, name, val)
        sys.stderr, sys.stdout, sys.argv = sv["sys.stderr"], sv["sys.stdout"], sv["sys.argv"]
        _routes_to_real()
        return False
