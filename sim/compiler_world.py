"""The compiler-process world (C09, C18).

System under simulation: the real, unmodified `bitproto` package from /repo's
working tree inside this interpreter, which plays "the compiler process".
Stubs: file system (SimFS), process exit, stderr/stdout, clocks.

`execute(plan)` runs an explicit, PRNG-free plan (ops + fault plan) and returns
the recorded history. The same function serves seeded runs and replays.
"""

import gc
import hashlib
import os
import re
import signal
import sys
import traceback

from . import seams, wal
from .seams import SimExit, StepBudgetExceeded, StepClock, Tripwires, WallTimeout, Window
from .simfs import REPO, HarnessError, SimCrash, SimFS

REPO_PREFIXES = (REPO + "/compiler/", REPO + "/lib/py/")
SIM_DIR = os.path.dirname(os.path.abspath(__file__)) + "/"
SYSTEM_OPS = ("parse", "parse_string", "lint", "render", "cli", "introspect")
MAX_BUDGET = 120_000_000
# Backstop for stalls the step clock cannot see (inside C code: regular expressions, big-number
# arithmetic). It is measured in CPU time of this process, which machine load does not inflate
# (ordinary operations take 5-500 ms, deep-nesting templates a few seconds); a much longer
# real-time limit catches a stall that burns no CPU (blocking on something real).
WALL_LIMIT_S = 20.0
REAL_LIMIT_FACTOR = 15

_ADDR = re.compile(r"0x[0-9a-fA-F]{6,}")


def _crc_tables():
    poly = 0xEDB88320
    fwd = []
    for i in range(256):
        c = i
        for _ in range(8):
            c = (c >> 1) ^ poly if c & 1 else c >> 1
        fwd.append(c)
    rev = {fwd[i] >> 24: i for i in range(256)}
    return fwd, rev


def forge_same_crc32(data: bytes) -> bytes:
    """Different bytes, same length, same CRC-32 (what a checksum-based 'unchanged?'
    test cannot tell apart): perturb a few bytes, then choose 4 patch bytes that restore
    the checksum."""
    import zlib

    if len(data) < 16:
        return data
    fwd, rev = _crc_tables()
    target = zlib.crc32(data) ^ 0xFFFFFFFF
    buf = bytearray(data)
    pos = len(buf) // 2
    for k in range(pos - 6, pos - 1):
        buf[k] = (buf[k] + 1 + k % 3) & 0xFF
    # state needed right after the patch: run the CRC backwards over the suffix
    state = target
    for b in reversed(buf[pos + 4 :]):
        i = rev[state >> 24]
        state = (((state ^ fwd[i]) << 8) & 0xFFFFFFFF) | (i ^ b)
    # state before the patch
    start = zlib.crc32(bytes(buf[:pos])) ^ 0xFFFFFFFF
    # go back four more steps with zero bytes, the difference to `start` is the patch
    tmp = state
    for _ in range(4):
        i = rev[tmp >> 24]
        tmp = (((tmp ^ fwd[i]) << 8) & 0xFFFFFFFF) | i
    patch = tmp ^ start
    buf[pos : pos + 4] = patch.to_bytes(4, "little")
    out = bytes(buf)
    if zlib.crc32(out) != zlib.crc32(data) or out == data or len(out) != len(data):
        raise HarnessError("CRC-32 forging failed")
    return out


def exit_status(code):
    """What the parent of a real process would see: None -> 0 (sys.exit()) -- kept as None for
    os._exit(None), which is a TypeError in the real function --, bool/int -> 8 bits,
    anything else (sys.exit("message")) -> 1."""
    if code is None:
        return None
    if isinstance(code, int):
        return int(code) & 0xFF
    return 1


def sha(b) -> str:
    if isinstance(b, str):
        b = b.encode("utf-8", "surrogateescape")
    return hashlib.sha256(b).hexdigest()[:20]


def purge_bitproto() -> None:
    for name in [m for m in sys.modules if m == "bitproto" or m.startswith("bitproto.") or m == "ply" or m.startswith("ply.") or m == "bitprotolib" or m.startswith("bitprotolib.")]:
        del sys.modules[name]


def import_bitproto():
    import bitproto  # noqa
    import bitproto._ast
    import bitproto._main
    import bitproto.errors
    import bitproto.linter
    import bitproto.parser
    import bitproto.renderer

    f = bitproto.__file__ or ""
    if not f.startswith(REPO + "/") and not os.environ.get("VERIF_ALLOW_NONREPO"):
        raise HarnessError("bitproto imported from %r, not from the working tree %s" % (f, REPO))
    return bitproto


class CompilerProcess:
    def __init__(self, plan):
        self.plan = plan
        seams.install_routers()  # before bitproto is imported: import-time bindings get the routers
        self.fs = SimFS.from_image(plan["fs"])
        self.tw = Tripwires()
        self.tw.install()
        self.fs.clock = lambda: self.tw.now
        self.clock = StepClock()
        self.sessions = {}
        self.history = []
        self.junk = []  # heap jitter ballast
        self.restarts = 0
        self.knob = plan.get("knob_cache", True)
        self.use_steps = plan.get("steps", True)
        self.faults_by_op = {}
        for f in plan.get("faults", []):
            self.faults_by_op.setdefault(f["op"], {})[f["call"]] = f
        self.boot()

    # -------------------------------------------------------------- lifecycle
    def boot(self) -> None:
        purge_bitproto()
        self.bp = import_bitproto()
        sys.modules["bitproto._ast"]._ENABLE_CACHE_ON_AST_FROZEN = bool(self.knob)
        self.sessions = {}

    def mod(self, name):
        return sys.modules[name]

    # ---------------------------------------------------------------- budgets
    def schema_chars(self) -> int:
        total = 0
        n = 0
        for p, data in self.fs.h_listing("/").items():
            if p.endswith(".bitproto"):
                total += len(data)
                n += 1
        return total, n

    def budget_parse(self, extra_chars: int = 0) -> int:
        chars, n = self.schema_chars()
        # calibration: building the ply tables costs ~90 k steps per (imported) file,
        # lexing+parsing < 40 steps per character; a file may be parsed once per importer
        # (+ a quadratic term: duplicate checks rebuild a dictionary per pushed member, so an enum
        # or message with n members costs ~n^2 steps; it is negligible for ordinary files)
        lines_est = (chars + extra_chars) // 16
        return min(MAX_BUDGET, 3_000_000 + 300_000 * max(1, n) + 100 * (chars + extra_chars) * max(1, min(n, 4)) + 2 * lines_est * lines_est)

    def budget_render(self, proto, optimize: bool) -> int:
        """Budget from a private walk of the tree (no bitproto method is called,
        so the process-global memo state is not perturbed by the harness)."""
        seen = set()
        tot = [0, 0]  # nbits over messages, ndefs

        def bits(t, depth=0):
            if depth > 64:
                return 0
            n = type(t).__name__
            if n == "Bool":
                return 1
            if n == "Byte":
                return 8
            if n in ("Uint", "Int"):
                return int(getattr(t, "cap", 0) or 0)
            if n == "Enum":
                return bits(getattr(t, "type", None), depth + 1)
            if n == "Alias":
                return bits(getattr(t, "type", None), depth + 1)
            if n == "Array":
                return min(70000, int(getattr(t, "cap", 0) or 0) * bits(getattr(t, "element_type", None), depth + 1))
            if n == "Message":
                b = 0
                for m in getattr(t, "members", {}).values():
                    if type(m).__name__ == "MessageField":
                        b += bits(getattr(m, "type", None), depth + 1)
                return min(70000, b)
            return 0

        maxdepth = [1]

        def walk(scope, depth=0):
            # iterative: the harness must not hit the recursion limit on deeply nested input
            stack = [(scope, 0)]
            while stack:
                sc, d = stack.pop()
                if id(sc) in seen:
                    continue
                seen.add(id(sc))
                maxdepth[0] = max(maxdepth[0], d + 1)
                for m in getattr(sc, "members", {}).values():
                    tot[1] += 1
                    if type(m).__name__ == "Message" and d < 64:
                        tot[0] += bits(m)
                    if hasattr(m, "members"):
                        stack.append((m, d + 1))

        try:
            walk(proto)
        except Exception:
            tot = [65535 * 4, 1000]
        # name formatting walks the scope stack of every definition: cost grows with
        # definitions x nesting depth (measured: 12.8 M steps for 480 nested messages)
        return min(MAX_BUDGET, 1_000_000 + 1_500 * tot[0] + 20_000 * tot[1] + 120 * tot[1] * maxdepth[0])

    # ---------------------------------------------------------------- running
    def classify(self, exc) -> str:
        errors = self.mod("bitproto.errors")
        if isinstance(exc, SimCrash):
            return "crash:" + ("power" if exc.power else "kill")
        if isinstance(exc, StepBudgetExceeded) or self.clock.tripped:
            # (a tripped clock wins even if the code turned the interruption into something else:
            # a catch-all that exits with a message, a wrapped exception)
            return "hang:steps"
        if isinstance(exc, WallTimeout) or self.wall_tripped:
            return "hang:wall"
        if isinstance(exc, SimExit):
            return "exit:%s" % (exit_status(exc.code),)
        if isinstance(exc, SystemExit):
            return "sysexit:%s" % (exit_status(exc.code),)
        if isinstance(exc, errors.ParserError):
            return "parser_error:" + type(exc).__name__
        if isinstance(exc, errors.RendererError):
            return "renderer_error:" + type(exc).__name__
        if isinstance(exc, errors.Error) and not isinstance(exc, errors.InternalError):
            # any other error class of bitproto's own hierarchy is a *reported* error too
            # (the property forbids internal exceptions and tracebacks, not new error classes)
            return "reported_error:" + type(exc).__name__
        if isinstance(exc, OSError):
            import errno as _e

            return "oserror:" + (_e.errorcode.get(exc.errno, str(exc.errno)) if exc.errno is not None else type(exc).__name__)
        # internal exception: signature without line numbers
        where = "?"
        tb = exc.__traceback__
        frames = traceback.extract_tb(tb) if tb else []
        if frames and frames[-1].filename.startswith(SIM_DIR) and not isinstance(exc, (ValueError, LookupError, RecursionError, MemoryError)) and not getattr(exc, "_sim_user_error", False):
            # raised by the simulator's own code (not an OSError, not the ValueError CPython's file
            # objects raise): the model is wrong or incomplete -- never the system's fault
            raise HarnessError("%s raised inside the simulator at %s:%s (%s): %s" % (type(exc).__name__, frames[-1].filename, frames[-1].lineno, frames[-1].name, exc))
        chosen = None
        for fr in frames:
            if fr.filename.startswith(REPO_PREFIXES):
                chosen = fr
        if chosen is None and frames:
            chosen = frames[-1]
        if chosen is not None:
            fn = chosen.filename
            for pre in REPO_PREFIXES:
                if fn.startswith(pre):
                    fn = fn[len(pre) :]
            where = "%s.%s" % (fn.rsplit(".py", 1)[0].replace("/", "."), chosen.name)
        return "internal:%s@%s" % (type(exc).__name__, where)

    def _alarm(self, signum, frame):
        self.wall_tripped = True
        raise WallTimeout()

    def system_op(self, i: int, op: dict, fn, budget: int, argv=None) -> dict:
        fs = self.fs
        fs.begin_op(self.faults_by_op.get(i))
        budget = int(budget * float(self.plan.get("budget_factor", 1)))
        rec = {"i": i, "op": op["op"]}
        self.wall_tripped = False
        win = Window(fs, self.tw, argv=argv)
        result = None
        exc = None
        steps = 0
        limit = WALL_LIMIT_S * float(self.plan.get("wall_factor", 1))
        old = signal.signal(signal.SIGALRM, self._alarm)
        old_prof = signal.signal(signal.SIGPROF, self._alarm)
        wal.mark("begin %d %s" % (i, op["op"]))
        signal.setitimer(signal.ITIMER_REAL, limit * REAL_LIMIT_FACTOR)
        signal.setitimer(signal.ITIMER_PROF, limit)
        try:
            with win:
                if self.use_steps:
                    self.clock.start(budget)
                try:
                    result = fn()
                finally:
                    steps = self.clock.stop() if self.use_steps else 0
        except HarnessError:
            raise
        except BaseException as e:  # noqa
            exc = e
        finally:
            signal.setitimer(signal.ITIMER_PROF, 0)
            signal.setitimer(signal.ITIMER_REAL, 0)
            signal.signal(signal.SIGALRM, old)
            signal.signal(signal.SIGPROF, old_prof)
            wal.mark("end %d" % i)
        rec["steps"] = steps
        rec["budget"] = budget
        rec["outcome"] = "ok" if exc is None else self.classify(exc)
        if exc is None and (self.clock.tripped or self.wall_tripped) and not fs.crashed:
            # the interruption was swallowed and the call returned: it is a hang all the same
            rec["outcome"] = "hang:steps" if self.clock.tripped else "hang:wall"
        if fs.crashed and not rec["outcome"].startswith("crash:"):
            # the injected kill is final: what handlers made of it afterwards (a catch-all that
            # exits with a message, a clean-up that raised something else) is fiction no real
            # process could produce -- nothing of it reached the disk (SimFS refuses every call
            # after the crash) and nothing of it is judged
            rec["after_crash"] = rec["outcome"]
            rec["outcome"] = "crash:" + ("power" if fs.crash_power else "kill")
        if exc is not None:
            msg = _ADDR.sub("0x?", str(exc))[:300]
            rec["exc"] = type(exc).__name__
            rec["msg"] = msg
            if isinstance(exc, SystemExit) and exc.code is not None and not isinstance(exc.code, int):
                rec["exit_msg_len"] = len(str(exc.code))
            if rec["outcome"].startswith("internal:"):
                rec["tb"] = [
                    "%s:%s" % (fr.filename.replace(REPO + "/compiler/", ""), fr.name)
                    for fr in traceback.extract_tb(exc.__traceback__)
                    if "/verif/" not in fr.filename
                ][-12:]
        fs.end_op()
        rec["seams"] = [k for (_, k, _) in fs.trace]
        # files this operation produced: opened for writing, or moved into place by a rename
        wrote = sorted({p.rsplit("/", 1)[-1] for (_, k, p) in fs.trace if k in ("open_w", "rename") and p})
        if wrote:
            rec["wrote"] = wrote
        paths = {n: p for (n, _, p) in fs.trace}
        rec["fired"] = [dict(f, path=(paths.get(f.get("call")) or "").rsplit("/", 1)[-1]) for f in fs.fired]
        planned = self.faults_by_op.get(i)
        if planned:
            rec["planned"] = len(planned)
        err = win.stderr.getvalue()
        if getattr(win, "fd2_len", 0):
            err = err + getattr(win, "fd2_text", "")
        rec["stderr_len"] = len(err)
        rec["stderr_sha"] = sha(_ADDR.sub("0x?", err)) if err else ""
        out = win.stdout.getvalue()
        if getattr(win, "fd1_len", 0):
            out = out + getattr(win, "fd1_text", "")
        if out:
            rec["stdout_len"] = len(out)
        if "Traceback (most recent call last)" in err or "Traceback (most recent call last)" in out:
            rec["traceback_printed"] = True
        if "recursion limit" in (rec.get("msg") or "") or (rec["outcome"].startswith(("exit:", "sysexit:")) and "recursion limit" in err):
            rec["resource_limit"] = True  # bitproto's own "too deeply nested" report (see oracles)
        exc = None
        return rec, result

    # ------------------------------------------------------------------- ops
    def outputs_in(self, d: str) -> dict:
        """sha of every regular file directly in directory d, except schema sources
        (no assumption about how generated files are named)."""
        out = {}
        d = d.rstrip("/") or "/"
        for p, data in self.fs.h_listing(d).items():
            parent, base = p.rsplit("/", 1)
            if (parent or "/") == d and not base.endswith(".bitproto"):
                out[base] = sha(data)
        return out

    def run_op(self, i: int, op: dict) -> dict:
        kind = op["op"]
        fs = self.fs
        if kind == "write":
            fs.h_mkdir(os.path.dirname(op["path"]) or "/")
            fs.h_write(op["path"], op["text"])
            return {"i": i, "op": kind, "outcome": "ok", "sha": sha(op["text"])}
        if kind == "unlink":
            fs.h_unlink(op["path"])
            return {"i": i, "op": kind, "outcome": "ok"}
        if kind == "rmtree":
            fs.h_rmtree(op["path"])
            return {"i": i, "op": kind, "outcome": "ok"}
        if kind == "mkdir":
            fs.h_mkdir(op["path"])
            return {"i": i, "op": kind, "outcome": "ok"}
        if kind == "symlink":
            if not fs.h_exists(op["path"]):
                fs.h_symlink(op["target"], op["path"])
            return {"i": i, "op": kind, "outcome": "ok"}
        if kind == "link":
            if not fs.h_exists(op["path"]):
                fs.h_link(op["src"], op["path"])
            return {"i": i, "op": kind, "outcome": "ok"}
        if kind == "chdir":
            fs.h_chdir(op["path"])
            return {"i": i, "op": kind, "outcome": "ok"}
        if kind == "tamper":
            # another actor touched the output directory between two compilations
            # (checkout with CRLF conversion, editor, interrupted copy, backup restore ...)
            d = op["dir"].rstrip("/")
            cands = sorted(p for p in fs.h_listing(d) if p.rsplit("/", 1)[0] == d and re.search(r"_bp\.(c|h|go|py)$", p))
            if not cands:
                return {"i": i, "op": kind, "outcome": "skipped"}
            path = cands[op.get("pick", 0) % len(cands)]
            data = fs.h_read(path)
            how = op["how"]
            if how == "delete":
                # `make clean`, or a checkout that removed the generated file
                fs.h_unlink(path)
                return {"i": i, "op": kind, "outcome": "ok", "file": path.rsplit("/", 1)[-1], "how": how}
            if how == "crlf":
                data = data.replace(b"\r\n", b"\n").replace(b"\n", b"\r\n")
            elif how == "cr":
                data = data.replace(b"\n", b"\r")
            elif how == "truncate":
                data = data[: len(data) * (op.get("frac", 50)) // 100]
            elif how == "empty":
                data = b""
            elif how == "append":
                data = data + b"\n// local edit\n"
            elif how == "bom":
                data = b"\xef\xbb\xbf" + data
            elif how == "same_crc32":
                data = forge_same_crc32(data)
            elif how == "same_head_tail":
                if len(data) > 64:
                    mid = len(data) // 2
                    data = data[: mid - 8] + bytes((c + 1) & 0x7F or 0x20 for c in data[mid - 8 : mid + 8]) + data[mid + 8 :]
            elif how == "swap_bytes":
                # same length, same multiset of bytes (sum / xor style checksums agree)
                b = bytearray(data)
                for k in range(len(b) // 2, len(b) - 1):
                    if b[k] != b[k + 1]:
                        b[k], b[k + 1] = b[k + 1], b[k]
                        break
                data = bytes(b)
            elif how == "same_size":
                data = (b"/* stale */ " * (len(data) // 12 + 1))[: len(data)]
            elif how == "strip_final_newline":
                data = data.rstrip(b"\n")
            elif how == "trailing_ws":
                data = data.replace(b"\n", b" \n", 3)
            elif how in ("touch_future", "touch_past"):
                pass
            else:
                raise HarnessError("unknown tamper %r" % (how,))
            fs.h_write(path, data)
            node = fs._walk(path)
            if how == "touch_future":
                node.mtime = fs.now() + 10 * 365 * 86400
            elif how == "touch_past":
                node.mtime = 1.0
            return {"i": i, "op": kind, "outcome": "ok", "file": path.rsplit("/", 1)[-1], "how": how}
        if kind == "drop":
            # the embedding forgets a finished compilation: its tree becomes garbage
            self.sessions.pop(op["sid"], None)
            return {"i": i, "op": kind, "outcome": "ok"}
        if kind == "restart":
            self.boot()
            self.restarts += 1
            return {"i": i, "op": kind, "outcome": "ok"}
        if kind == "jitter":
            return self.jitter(i, op)
        if kind == "parse":
            budget = self.budget_parse()
            parser = self.mod("bitproto.parser")
            rec, proto = self.system_op(i, op, lambda: parser.parse(op["path"], traditional_mode=bool(op.get("trad"))), budget)
            self.sessions[op["sid"]] = proto if rec["outcome"] == "ok" else None
            rec["accepted"] = rec["outcome"] == "ok"
            return rec
        if kind == "parse_string":
            budget = self.budget_parse(len(op["text"]))
            parser = self.mod("bitproto.parser")
            rec, proto = self.system_op(
                i, op, lambda: parser.parse_string(op["text"], traditional_mode=bool(op.get("trad")), filepath=op.get("filepath", "")), budget
            )
            self.sessions[op["sid"]] = proto if rec["outcome"] == "ok" else None
            rec["accepted"] = rec["outcome"] == "ok"
            return rec
        if kind == "lint":
            proto = self.sessions.get(op["sid"])
            if proto is None:
                return {"i": i, "op": kind, "outcome": "skipped"}
            linter = self.mod("bitproto.linter")
            rec, n = self.system_op(i, op, lambda: linter.lint(proto), self.budget_render(proto, False))
            rec["warnings"] = n
            return rec
        if kind == "introspect":
            # what an embedding such as the language server does between compilations:
            # read-only queries on the tree (they populate the process-global memo in
            # other parametrisations than lint and the renderers use)
            proto = self.sessions.get(op["sid"])
            if proto is None:
                return {"i": i, "op": kind, "outcome": "skipped"}
            rec, n = self.system_op(i, op, lambda: self.introspect(proto, op.get("variant", 0)), self.budget_render(proto, False))
            rec["queries"] = n
            if rec["outcome"] != "ok":
                rec["outcome"] = "ok"  # queries are not judged; a failing query is only recorded
                rec["query_failed"] = True
            return rec
        if kind == "render":
            proto = self.sessions.get(op["sid"])
            if proto is None:
                return {"i": i, "op": kind, "outcome": "skipped"}
            renderer = self.mod("bitproto.renderer")
            rec, paths = self.system_op(
                i,
                op,
                lambda: renderer.render(
                    proto,
                    op["lang"],
                    outdir=op.get("outdir") or None,
                    optimization_mode=bool(op.get("opt")),
                    optimization_mode_filter_messages=op.get("filter"),
                    optimization_mode_endian=op.get("endian", "both"),
                ),
                self.budget_render(proto, bool(op.get("opt"))),
            )
            if op.get("outdir_abs"):
                rec["outputs"] = self.outputs_in(op["outdir_abs"])
            if paths is not None:
                rec["paths"] = [p.rsplit("/", 1)[-1] for p in paths]
            return rec
        if kind == "cli":
            # (parse + lint + render of the most expensive accepted input met -- ~470 nesting
            # levels, just below the recursion limit -- is ~30 M steps: 2x headroom)
            budget = min(MAX_BUDGET, self.budget_parse() + 60_000_000)
            main = self.mod("bitproto._main")
            rec, ret = self.system_op(i, op, lambda: main.run_bitproto(), budget, argv=["bitproto"] + list(op["argv"]))
            if rec["outcome"] == "ok" and ret not in (None, 0):
                # the console-script wrapper does sys.exit(run_bitproto())
                rec["outcome"] = "sysexit:%s" % (exit_status(ret),)
                rec["returned_status"] = True
                if not isinstance(ret, int):
                    rec["exit_msg_len"] = len(str(ret))
            if op.get("outdir_abs"):
                rec["outputs"] = self.outputs_in(op["outdir_abs"])
            return rec
        raise HarnessError("unknown op %r" % (kind,))

    def introspect(self, proto, variant: int) -> int:
        ast = self.mod("bitproto._ast")
        n = 0
        seen = set()

        def call(obj, name, *a, **k):
            nonlocal n
            f = getattr(obj, name, None)
            if callable(f):
                n += 1
                return f(*a, **k)
            return None

        def walk(scope, depth=0):
            if id(scope) in seen or depth > 32:
                return
            seen.add(id(scope))
            for rec_ in ((False, True) if variant % 2 == 0 else (True, False)):
                call(scope, "messages", recursive=rec_)
                call(scope, "enums", recursive=rec_)
                call(scope, "constants", recursive=rec_)
                call(scope, "aliases", recursive=rec_)
                if variant % 3 == 0:
                    call(scope, "filter", ast.Definition, recursive=rec_, bound=proto)
                    call(scope, "filter", ast.Definition, recursive=rec_)
            if hasattr(scope, "options_as_dict"):
                call(scope, "options_as_dict")
            for name, m in list(getattr(scope, "members", {}).items()):
                call(scope, "get_member", name)
                call(scope, "get_name_by_member", m)
                if isinstance(m, ast.Message):
                    call(m, "nbits")
                    call(m, "nbytes")
                    call(m, "sorted_fields")
                    call(m, "number_to_field_sorted")
                    call(m, "nfields")
                if isinstance(m, ast.Enum):
                    call(m, "name_to_values")
                    call(m, "value_to_names")
                    call(m, "fields")
                if isinstance(m, ast.Alias):
                    call(m, "nbits")
                if hasattr(m, "members"):
                    walk(m, depth + 1)

        walk(proto)
        for ref in list(getattr(proto, "references", []))[:50]:
            _ = ref.referenced_definition
        return n

    def jitter(self, i: int, op: dict) -> dict:
        k = op.get("kind")
        if k == "heap":
            # seeded allocation / release of garbage: moves id() of later objects
            for size in op.get("alloc", []):
                self.junk.append([object() for _ in range(size % 5000)])
            for idx in op.get("free", []):
                if self.junk:
                    self.junk.pop(idx % len(self.junk))
        elif k == "gc":
            gc.collect()
        elif k == "gc_off":
            gc.disable()
        elif k == "gc_on":
            gc.enable()
        elif k == "clock":
            self.tw.advance(float(op.get("dt", 1.0)))
        elif k == "env":
            os.environ[op["name"]] = op["value"]
        else:
            raise HarnessError("unknown jitter %r" % (k,))
        return {"i": i, "op": "jitter", "outcome": "ok", "kind": k}

    def run(self) -> dict:
        ops = self.plan["ops"]
        for i, op in enumerate(ops):
            rec = self.run_op(i, op)
            if "key" in op:
                rec["key"] = op["key"]
            self.history.append(rec)
            oc = rec["outcome"]
            if oc == "hang:wall":
                # a stall inside C code costs real time: judge this one, do not sit through more
                rec["run_aborted"] = True
                break
            if oc.startswith("crash") or oc.startswith("hang") or oc.startswith("exit") or oc.startswith("sysexit"):
                # the process is gone: only durable state survives
                self.boot()
                self.restarts += 1
                rec["auto_restart"] = True
            if oc.startswith("crash") is False:
                pass
        gc.enable()
        return {
            "history": self.history,
            "probes": dict(self.fs.probes),
            "tripwires": dict(self.tw.touched),
            "restarts": self.restarts,
            "total_steps": self.clock.total,
            "final_fs": {p: sha(d) for p, d in self.fs.h_listing("/").items()},
        }


def execute(plan: dict) -> dict:
    return CompilerProcess(plan).run()
