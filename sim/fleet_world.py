"""The fleet world (C05): a mixed-version deployment in one process.

Real: the compiler from /repo (renders Python and C for every version), the
generated Python modules with /repo's Python runtime, the generated C with
/repo's C runtime (gcc, ctypes). Stubs: transport (discrete-event queue),
clock (virtual ms), reference producer (independent reference encoder).

Invariant at every delivery with sender version s > receiver version r: the
receiver recovers exactly restrict(value, S_s -> S_r).
"""

import heapq
import importlib.util
import os
import shutil
import sys
import tempfile
import traceback

from . import refmodel, schemagen as sg, wal
from .schemajson import schema_from_json
from .simfs import REPO, HarnessError


class _Sys:
    """Write-ahead markers around a call into the system under test (see wal.py)."""

    n = 0

    def __init__(self, label: str):
        self.label = label

    def __enter__(self):
        _Sys.n += 1
        self.i = _Sys.n
        wal.mark("begin %d %s" % (self.i, self.label))

    def __exit__(self, *a):
        wal.mark("end %d" % self.i)
        return False


class PyCodec:
    def __init__(self, path: str, tag: str):
        spec = importlib.util.spec_from_file_location("verif_fleet_" + tag, path)
        mod = importlib.util.module_from_spec(spec)
        sys.modules[spec.name] = mod
        spec.loader.exec_module(mod)
        self.mod = mod

    def fill(self, obj, t, v):
        for f in t.fields:
            self._set(obj, f.name, f.type, v[str(f.num)], True)

    def _set(self, holder, key, t, v, attr):
        """Assign value v of type t to holder.key (attr) or holder[key] (list slot)."""
        while t.kind == "alias":
            t = t.target
        k = t.kind
        if k == "message":
            self.fill(getattr(holder, key) if attr else holder[key], t, v)
        elif k == "array":
            lst = getattr(holder, key) if attr else holder[key]
            for i in range(t.cap):
                self._set(lst, i, t.elem, v[i], False)
        else:
            x = bool(v) if k == "bool" else int(v)
            if attr:
                setattr(holder, key, x)
            else:
                holder[key] = x

    def read(self, obj, t):
        return {str(f.num): self._get(getattr(obj, f.name), f.type) for f in t.fields}

    def _get(self, x, t):
        k = t.kind
        if k == "alias":
            return self._get(x, t.target)
        if k == "message":
            return self.read(x, t)
        if k == "array":
            return [self._get(x[i], t.elem) for i in range(t.cap)]
        if k == "bool":
            return bool(x)
        return int(x)

    def encode(self, t, v) -> bytes:
        m = self.mod.Packet()
        self.fill(m, t, v)
        return bytes(m.encode())

    def decode(self, t, buf: bytes):
        m = self.mod.Packet()
        m.decode(bytearray(buf))
        self.last_object = m  # a relay may encode the very object it decoded into
        return self.read(m, t)


def first_diff(a, b, path=""):
    if isinstance(a, dict) and isinstance(b, dict):
        for k in sorted(set(a) | set(b), key=lambda x: int(x)):
            if k not in a or k not in b:
                return "%s.%s missing" % (path, k)
            d = first_diff(a[k], b[k], "%s.%s" % (path, k))
            if d:
                return d
        return None
    if isinstance(a, list) and isinstance(b, list):
        if len(a) != len(b):
            return "%s len %d != %d" % (path, len(a), len(b))
        for i, (x, y) in enumerate(zip(a, b)):
            d = first_diff(x, y, "%s[%d]" % (path, i))
            if d:
                return d
        return None
    if a != b:
        return "%s: expected %r got %r" % (path, a, b)
    return None


def field_after_growth(ts, tr) -> dict:
    """Structural probes for one (sender type, receiver type) pair: is there an
    S_r field / element located after a region that grew? (Then the skip decides.)"""
    probes = {"after_grown_message": False, "after_grown_array": False, "grown_array_of_grown_messages": False, "grown_array_of_grown_arrays": False, "max_growth_depth": 0}

    def grew(s, r):
        return sg.nbits(s) != sg.nbits(r)

    def rec(s, r, depth):
        """returns True if this subtree grew"""
        if r.kind == "alias":
            return rec(s.target, r.target, depth)
        if r.kind == "message":
            sf = {f.num: f for f in s.fields}
            g_before = False
            any_g = False
            for f in r.sorted_fields():
                if g_before:
                    pass
                g = rec(sf[f.num].type, f.type, depth + 1)
                if g_before and True:
                    kind = g_before
                    probes["after_" + kind] = True
                if g:
                    any_g = True
                    t = f.type
                    while t.kind == "alias":
                        t = t.target
                    g_before = "grown_array" if t.kind == "array" else "grown_message"
            extra = len(s.fields) > len(r.fields)
            if extra or any_g:
                probes["max_growth_depth"] = max(probes["max_growth_depth"], depth)
            return extra or any_g
        if r.kind == "array":
            ge = rec(s.elem, r.elem, depth + 1)
            gc = s.cap > r.cap
            if gc and ge:
                et = r.elem
                while et.kind == "alias":
                    et = et.target
                probes["grown_array_of_grown_arrays" if et.kind == "array" else "grown_array_of_grown_messages"] = True
            if ge and r.cap > 1:
                probes["after_grown_message"] = True  # element k+1 follows grown element k
            if gc or ge:
                probes["max_growth_depth"] = max(probes["max_growth_depth"], depth)
            return gc or ge
        return False

    top_grew = rec(ts, tr, 0)
    probes["grew"] = bool(top_grew)
    return probes


class Fleet:
    def __init__(self, plan):
        self.plan = plan
        self.versions = [schema_from_json(j) for j in plan["lineage"]]
        self.roots = [v.find("Packet") for v in self.versions]
        self.k = len(self.versions)
        self.work = tempfile.mkdtemp(prefix="verif-fleet-")
        self.py = {}
        self.c = {}
        self.log = []
        self.violations = []
        self.stats = {"deliveries": 0, "cross_version": 0, "same_version": 0, "skew_refused": 0, "control_failures": 0, "encoder_vs_reference_mismatch": 0, "relay_forwards": 0, "upgrades": 0, "rollbacks": 0, "delivery_crossed_upgrade": 0, "multi_hop": 0, "by_runtime": {}}
        self.probes = {}
        self.cases = set()
        self.nontrivial = set()
        self.now = 0
        self.seq = 0
        self.q = []

    # ----------------------------------------------------------- artefacts
    def build(self):
        import bitproto  # noqa

        if not (bitproto.__file__ or "").startswith(REPO + "/"):
            raise HarnessError("bitproto imported from %r" % bitproto.__file__)
        from bitproto.parser import parse
        from bitproto.renderer import render

        from . import cbuild

        need_c = any(n["runtime"] == "c" for n in self.plan["nodes"])
        need_py = any(n["runtime"] == "py" for n in self.plan["nodes"])
        cc = self.plan.get("cc")
        rt = cbuild.build_runtime(self.work, cc) if need_c else None
        if need_c:
            self.stats["by_toolchain"] = {"%s %s" % ((cc or {}).get("compiler", "gcc"), (cc or {}).get("opt", "-O1")): 1}
        for i, s in enumerate(self.versions):
            d = os.path.join(self.work, "v%d" % i)
            os.makedirs(d)
            src = os.path.join(d, "pkt.bitproto")
            split = self.plan.get("split")
            lib_text = None
            if split:
                main_text, lib_text = s.split_texts(split["lib"], "pktlibv%d" % i, "pktlibv%d.bitproto" % i, split.get("alias", "lib"))
            else:
                main_text = s.text()
            with open(src, "w") as f:
                f.write(main_text)
            lib_src = os.path.join(d, "pktlibv%d.bitproto" % i)
            if lib_text is not None:
                with open(lib_src, "w") as f:
                    f.write(lib_text)
                self.stats["multi_file_versions"] = self.stats.get("multi_file_versions", 0) + 1
            # (generated files are taken from what render() returns: no assumption about names)
            with _Sys("compile v%d py" % i):
                proto = parse(src)
                outs = [os.path.join(d, os.path.basename(p)) for p in render(proto, "py", outdir=d)]
                lib_proto = parse(lib_src) if lib_text is not None else None
                if lib_proto is not None:
                    render(lib_proto, "py", outdir=d)  # the generated main module imports it by name
            pys = [p for p in outs if p.endswith(".py")]
            if len(pys) != 1:
                raise HarnessError("the Python renderer returned %r" % (outs,))
            if need_py:
                # (no byte code for generated modules: they live in a unique scratch directory,
                # so every fleet would leave its own entries in the byte-code cache for ever)
                sys.path.insert(0, d)
                old_dwb, sys.dont_write_bytecode = sys.dont_write_bytecode, True
                try:
                    self.py[i] = PyCodec(pys[0], "v%d" % i)
                finally:
                    sys.dont_write_bytecode = old_dwb
                    sys.path.remove(d)
            if need_c:
                with _Sys("compile v%d c" % i):
                    outs = [os.path.join(d, os.path.basename(p)) for p in render(proto, "c", outdir=d)]
                cs = [p for p in outs if p.endswith(".c")]
                hs = [p for p in outs if p.endswith(".h")]
                if len(cs) != 1 or len(hs) != 1:
                    raise HarnessError("the C renderer returned %r" % (outs,))
                extra_c = []
                if lib_proto is not None:
                    with _Sys("compile v%d c-lib" % i):
                        extra_c = [os.path.join(d, os.path.basename(p)) for p in render(lib_proto, "c", outdir=d) if p.endswith(".c")]
                so = cbuild.build_version(self.work, cs[0], hs[0], rt, "v%d" % i, self.roots[i], extra_c, cc)
                self.c[i] = cbuild.CCodec(so, self.roots[i])

    # ------------------------------------------------------------- codecs
    def nbytes(self, ver):
        return (sg.nbits(self.roots[ver]) + 7) // 8

    def encode_at(self, runtime, ver, value):
        """Encode `value` (a value of version ver) with the real encoder of `runtime`."""
        t = self.roots[ver]
        if runtime == "ref":
            return refmodel.ref_encode(t, value)
        if runtime == "py":
            return self.py[ver].encode(t, value)
        from . import cbuild

        # C: fill the struct through the generated accessors, encode with the real encoder
        codec = self.c[ver]
        st = codec.new_struct()
        codec.fill(st, value)
        rc, out, ok = codec.encode(st, self.nbytes(ver))
        if rc != 0 or not ok or not codec.struct_guard_ok(st):
            raise HarnessError("C encoder crashed or overran its buffer (signal %d): outside C05" % rc)
        return out

    def receive(self, node, msg):
        """Decode msg at node; returns (recovered value or None, failure signature or None, detail)."""
        from . import cbuild

        r = node["version"]
        s = msg["sver"]
        tr = self.roots[r]
        expected = refmodel.restrict(msg["value"], self.roots[s], tr)
        cross = s > r
        if node["runtime"] == "py":
            try:
                got = self.py[r].decode(tr, msg["bytes"])
                self.last_decoded = ("py", self.py[r].last_object)
            except Exception as e:  # noqa
                tb = traceback.extract_tb(e.__traceback__)
                where = tb[-1].name if tb else "?"
                return expected, "py-decode-exception:%s@%s" % (type(e).__name__, where), str(e)[:200]
            d = first_diff(expected, got)
            if d:
                return expected, "py-wrong-value", d
            return expected, None, None
        codec = self.c[r]
        st = codec.new_struct()
        src = cbuild.GuardedBuffer(msg["bytes"]) if cross else cbuild.PlainBuffer(msg["bytes"])
        rc = codec.decode(st, src.addr)
        src.close()
        if rc != 0:
            import signal

            return expected, "c-crash:%s@decode" % signal.Signals(rc).name, "signal %d inside DecodePacket (read past the end of the buffer or wild access)" % rc
        if not codec.struct_guard_ok(st):
            return expected, "c-struct-overrun", ""
        got = codec.read(st)
        self.last_decoded = ("c", st)
        d = first_diff(expected, got)
        if d:
            return expected, "c-wrong-value", d
        return expected, None, None

    # ---------------------------------------------------------- simulation
    def push(self, t, kind, payload):
        self.seq += 1
        heapq.heappush(self.q, (t, self.seq, kind, payload))

    def run(self):
        self.build()
        nodes = {n["id"]: dict(n) for n in self.plan["nodes"]}
        for ev in self.plan["events"]:
            self.push(ev["t"], ev["type"], ev)
        newest = self.k - 1
        structural = {}
        while self.q:
            t, _, kind, ev = heapq.heappop(self.q)
            self.now = t
            if kind == "tick":
                n = nodes[ev["node"]]
                ver = n["version"]
                value = refmodel.restrict(ev["value"], self.roots[newest], self.roots[ver])
                with _Sys("encode %s v%d" % (n["runtime"], ver)):
                    data = self.encode_at(n["runtime"], ver, value)
                if n["runtime"] != "ref" and data != refmodel.ref_encode(self.roots[ver], value):
                    self.stats["encoder_vs_reference_mismatch"] += 1
                msg = {"bytes": data, "sver": ver, "origin": ver, "value": value, "hops": 0, "src_rt": n["runtime"], "sent_at": t, "relay_lat": ev.get("relay_lat", [10])}
                for dst, lat in zip(ev["dst"], ev["lat"]):
                    self.push(t + lat, "deliver", {"to": dst, "msg": msg, "sent_ver_of_dst": nodes[dst]["version"]})
            elif kind == "upgrade":
                n = nodes[ev["node"]]
                if n["version"] < newest:
                    n["version"] += 1
                    self.stats["upgrades"] += 1
            elif kind == "rollback":
                n = nodes[ev["node"]]
                if n["version"] > 0:
                    n["version"] -= 1
                    self.stats["rollbacks"] += 1
            elif kind == "deliver":
                n = nodes[ev["to"]]
                msg = ev["msg"]
                r, s = n["version"], msg["sver"]
                if r > s:
                    self.stats["skew_refused"] += 1
                    continue
                if ev["sent_ver_of_dst"] != r:
                    self.stats["delivery_crossed_upgrade"] += 1
                self.stats["deliveries"] += 1
                rt = "%s->%s" % (msg["src_rt"], n["runtime"])
                self.stats["by_runtime"][rt] = self.stats["by_runtime"].get(rt, 0) + 1
                with _Sys("decode %s v%d<-v%d" % (n["runtime"], r, s)):
                    expected, sig, detail = self.receive(n, msg)
                if msg["hops"] > 0:
                    self.stats["multi_hop"] += 1
                vh = hash_value(msg["value"])
                # version skew anywhere on the path counts: a message that ORIGINATED from a newer
                # version and was re-encoded by a relay is still data of the extended schema
                skewed_path = msg.get("origin", s) > r and msg["hops"] > 0
                if s > r or skewed_path:
                    if skewed_path and not s > r:
                        self.stats["relayed_from_newer_origin"] = self.stats.get("relayed_from_newer_origin", 0) + 1
                    self.stats["cross_version"] += 1
                    key = (s, r)
                    if key not in structural:
                        structural[key] = field_after_growth(self.roots[s], self.roots[r])
                    pr = structural[key]
                    for name in ("after_grown_message", "after_grown_array", "grown_array_of_grown_messages", "grown_array_of_grown_arrays"):
                        if pr[name]:
                            self.probes[name] = self.probes.get(name, 0) + 1
                    if pr["max_growth_depth"] >= 3:
                        self.probes["growth_at_depth>=3"] = self.probes.get("growth_at_depth>=3", 0) + 1
                    case = "%d>%d/%s/%s" % (s, r, n["runtime"], vh)
                    self.cases.add(case)
                    if pr["after_grown_message"] or pr["after_grown_array"]:
                        self.nontrivial.add(case)
                    if sig:
                        known = {v["sig"] for v in self.violations}
                        if sig not in known or len(self.violations) < 40:
                            viol = {"sig": sig, "detail": detail, "s": s, "r": r, "runtime": n["runtime"], "src_runtime": msg["src_rt"], "t": t, "hops": msg["hops"], "delivery": self.stats["deliveries"]}
                            if sig not in known:
                                viol["value"] = msg["value"]  # enough to rebuild a two-node replay
                            self.violations.append(viol)
                        self.stats["cross_version_failures"] = self.stats.get("cross_version_failures", 0) + 1
                else:
                    self.stats["same_version"] += 1
                    if sig:
                        self.stats["control_failures"] += 1
                        self.log.append({"control_failure": sig, "detail": detail, "v": s, "runtime": n["runtime"]})
                self.log.append({"t": t, "to": n["id"], "s": s, "r": r, "rt": rt, "ok": sig is None, "v": vh})
                # relay: decode, re-encode at own version, forward
                if n["role"] == "relay" and msg["hops"] < 3 and sig is None:
                    nxt = [m for m in nodes.values() if m["id"] > n["id"] and m["runtime"] != "ref"]
                    if nxt:
                        if n.get("relay_same_object", True) and getattr(self, "last_decoded", None) and self.last_decoded[0] == n["runtime"]:
                            # the usual relay: encode the very object / struct the message was decoded into
                            kind, obj = self.last_decoded
                            if kind == "py":
                                try:
                                    with _Sys("relay-encode py v%d" % r):
                                        data = bytes(obj.encode())
                                except Exception as e:  # noqa
                                    self.violations.append({"sig": "py-relay-encode-exception:%s" % type(e).__name__, "detail": str(e)[:200], "s": s, "r": r, "runtime": "py", "src_runtime": msg["src_rt"], "t": t, "hops": msg["hops"], "delivery": self.stats["deliveries"], "value": msg["value"]})
                                    continue
                            else:
                                with _Sys("relay-encode c v%d" % r):
                                    rc, data, ok = self.c[r].encode(obj, self.nbytes(r))
                                if rc != 0 or not ok:
                                    raise HarnessError("C encoder crashed or overran its buffer on a relay (signal %d)" % rc)
                            self.stats["relay_same_object"] = self.stats.get("relay_same_object", 0) + 1
                        else:
                            with _Sys("encode %s v%d" % (n["runtime"], r)):
                                data = self.encode_at(n["runtime"], r, expected)
                        fwd = {"bytes": data, "sver": r, "origin": max(msg.get("origin", s), s), "value": expected, "hops": msg["hops"] + 1, "src_rt": n["runtime"], "sent_at": t, "relay_lat": msg["relay_lat"]}
                        for j, m in enumerate(nxt[:2]):
                            lat = msg["relay_lat"][(msg["hops"] * 2 + j) % len(msg["relay_lat"])]
                            self.push(t + lat, "deliver", {"to": m["id"], "msg": fwd, "sent_ver_of_dst": m["version"]})
                            self.stats["relay_forwards"] += 1
        return {
            "violations": self.violations,
            "stats": self.stats,
            "probes": self.probes,
            "cases": len(self.cases),
            "nontrivial_cases": sorted(self.nontrivial),
            "log_digest_input": self.log,
            "sim_time_ms": self.now,
            "versions": self.k,
            "bits": [sg.nbits(r) for r in self.roots],
        }

    def cleanup(self):
        shutil.rmtree(self.work, ignore_errors=True)


def hash_value(v) -> str:
    import hashlib
    import json

    return hashlib.sha256(json.dumps(v, sort_keys=True).encode()).hexdigest()[:10]


def execute(plan: dict) -> dict:
    from . import cbuild

    fl = Fleet(plan)
    try:
        return fl.run()
    except cbuild.CBuildError as e:
        raise HarnessError("C build failed (outside C05): %s" % e)
    finally:
        fl.cleanup()
