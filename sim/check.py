"""bin/check <C05|C09|C18> [--tier quick|thorough] [--replay FILE] [--seeds N] [--jobs N]

Exit 0: the property held on everything explored (KNOWN-FINDING lines allowed)
Exit 1: 'VIOLATION property=<id> replay=<path>' printed for each new violation
Exit 2: HARNESS-ERROR (the machinery failed; never reported as pass or violation)
"""

import argparse
import json
import os
import sys
import time
import traceback

from . import runner
from .prng import derive

VERIF = runner.VERIF
EVIDENCE = os.environ.get("VERIF_EVIDENCE_DIR") or os.path.join(VERIF, "evidence")
KNOWN = os.path.join(VERIF, "known_findings.json")

TIERS = {
    # property -> tier -> number of seeds
    "C09": {"quick": 400, "thorough": 6000},
    "C18": {"quick": 250, "thorough": 4000},
    "C05": {"quick": 1000, "thorough": 30000},
}
SELFTEST = {"quick": 8, "thorough": 48}


def load_known():
    if not os.path.exists(KNOWN):
        return []
    with open(KNOWN) as f:
        return json.load(f).get("findings", [])


def import_chain_depth(plan: dict) -> int:
    """Length of the longest chain of files importing one another in a plan's schema files
    (file image plus files written by the plan's own operations)."""
    import posixpath
    import re

    files = dict((((plan or {}).get("fs") or {}).get("files")) or {})
    cwd = (((plan or {}).get("fs") or {}).get("cwd")) or "/"
    for op in (plan or {}).get("ops") or []:
        if op.get("op") == "write" and isinstance(op.get("text"), str):
            files[posixpath.normpath(posixpath.join(cwd, op["path"]))] = op["text"]
    pat = re.compile(r'^[ \t]*import[ \t]+(?:[A-Za-z_][A-Za-z_0-9]*[ \t]+)?"([^"\n]+)"', re.M)
    edges = {}
    for path, text in files.items():
        if not path.endswith(".bitproto") or not isinstance(text, str):
            continue
        d = posixpath.dirname(path)
        edges[path] = [q for q in (posixpath.normpath(posixpath.join(d, m)) for m in pat.findall(text)) if q in files]
    depth = {}
    for root in edges:
        if root in depth:
            continue
        stack = [(root, iter(edges.get(root, ())))]
        onpath = {root}
        while stack:
            node, it = stack[-1]
            nxt = next(it, None)
            if nxt is None:
                depth[node] = 1 + max([depth.get(c, 0) for c in edges.get(node, ())] or [0])
                onpath.discard(node)
                stack.pop()
            elif nxt not in depth and nxt not in onpath:
                onpath.add(nxt)
                stack.append((nxt, iter(edges.get(nxt, ()))))
    return max(depth.values() or [0])


def known_match(prop, v, known):
    """An open finding matches only its signature class AND its triggering construct
    (and, where the entry says so, a frame of the recorded traceback)."""
    import re

    for k in known:
        if k.get("property") != prop or k.get("status") != "open":
            continue
        if k.get("signature_regex"):
            if not re.search(k["signature_regex"], v["sig"]):
                continue
        elif k.get("signature") != v["sig"]:
            continue
        if k.get("trigger_import_chain_min"):
            if import_chain_depth(v.get("plan") or {}) < int(k["trigger_import_chain_min"]):
                continue
        if k.get("tb_regex") and v.get("tb"):
            if not re.search(k["tb_regex"], "\n".join(v["tb"])):
                continue
        pat = k.get("trigger_regex")
        if pat:
            blob = json.dumps(v.get("plan") or v.get("request") or {}, sort_keys=True)
            if not re.search(pat, blob):
                continue
        return k
    return None


def main(argv=None) -> int:
    ap = argparse.ArgumentParser(prog="check")
    ap.add_argument("prop", choices=sorted(TIERS))
    ap.add_argument("--tier", default=os.environ.get("VERIF_TIER") or "quick", choices=["quick", "thorough"])
    ap.add_argument("--replay")
    ap.add_argument("--seeds", type=int, help="override the number of seeded runs")
    ap.add_argument("--jobs", type=int, default=runner.jobs_default())
    ap.add_argument("--no-minimise", action="store_true")
    ap.add_argument("--no-selftest", action="store_true")
    ap.add_argument("--keep-going", action="store_true", help="do not stop scheduling new seeds after the first violation")
    args = ap.parse_args(argv)
    try:
        return _main(args)
    except runner.HarnessFailure as e:
        print("HARNESS-ERROR: %s" % (e,))
        return 2
    except Exception:
        print("HARNESS-ERROR: unexpected exception in the check driver")
        traceback.print_exc()
        return 2


def _main(args) -> int:
    prop = args.prop
    if prop == "C05":
        from . import check_fleet as impl
    else:
        from . import check_compiler as impl
    if args.replay:
        ok, want, got = impl.replay(prop, args.replay)
        if ok:
            print("reproduced: %s" % want)
            print("VIOLATION property=%s replay=%s" % (prop, os.path.abspath(args.replay)))
            return 1
        print("not reproduced: wanted %s, got %s" % (want, got))
        return 0

    base = int(os.environ.get("VERIF_SEED", "1") or 1)
    n = args.seeds or TIERS[prop][args.tier]
    # the registered evidence file is only written by the registered command on /repo: an ad-hoc
    # run (other seed count, self-test skipped, another tree) writes next to it, under scratch/
    adhoc = bool(args.seeds and args.seeds != TIERS[prop][args.tier]) or args.no_selftest or runner.REPO != "/repo"
    evidence_dir = os.environ.get("VERIF_EVIDENCE_DIR") or (os.path.join(runner.SCRATCH, "evidence-adhoc") if adhoc else EVIDENCE)
    seeds = [derive(base, prop, i) % (1 << 48) for i in range(n)]
    print("check %s tier=%s VERIF_SEED=%d runs=%d jobs=%d tree=%s" % (prop, args.tier, base, n, args.jobs, runner.tree_hash()))
    sys.stdout.flush()
    t0 = time.monotonic()
    # ---- regression replays: the minimised histories of every defect repaired so far are
    # re-executed first; a repaired defect that returns is reported at once (a 'fixed' entry
    # in known_findings.json suppresses nothing)
    import glob

    reg_files = sorted(glob.glob(os.path.join(VERIF, "regressions", prop + "-*.json")))
    reg_hits = []
    for path, (ok, want, got) in zip(reg_files, runner.pmap(lambda f: impl.replay(prop, f), reg_files, args.jobs)):
        if ok:
            reg_hits.append((path, want))
    for path, want in reg_hits:
        print("violation: %s (a repaired defect is back: regression replay reproduces)" % want)
        print("VIOLATION property=%s replay=%s" % (prop, path))
    # ---- listed (open) findings are exercised on every run through their own replay: the
    # KNOWN-FINDING line does not depend on the random workload happening to hit them
    import re as _re

    open_hits = {}
    for kf in load_known():
        if kf.get("property") != prop or kf.get("status") != "open" or not kf.get("replay"):
            continue
        _, _, got = impl.replay(prop, os.path.join(VERIF, kf["replay"]))
        pat = kf.get("signature_regex") or ("^" + _re.escape(kf.get("signature", "")) + "$")
        n_hit = sum(1 for g in got if _re.search(pat, g))
        open_hits[kf.get("id") or kf.get("signature")] = n_hit
        if n_hit:
            print("KNOWN-FINDING: property=%s %s (its replay %s reproduces: %d operation(s))" % (prop, kf.get("what", ""), kf["replay"], n_hit))
        else:
            print("note: listed finding %s no longer reproduces with %s (the entry can be marked fixed)" % (kf.get("id"), kf["replay"]))
    sys.stdout.flush()
    ctx = impl.new_context(prop, args.tier)
    stop = {"flag": False}
    known = load_known()

    def one(seed):
        if stop["flag"]:
            return None
        r = impl.run_seed(prop, seed, ctx)
        if not args.keep_going and any(known_match(prop, v, known) is None for v in r["violations"]):
            stop["flag"] = True  # fail fast on something new (listed findings do not stop the search)
        return r

    tree_at_start = runner.tree_hash()
    t_runs0 = time.monotonic()
    results = runner.pmap(one, seeds, args.jobs)
    done = [r for r in results if r is not None]
    t_runs = time.monotonic() - t_runs0
    if runner.tree_hash() != tree_at_start:
        raise runner.HarnessFailure("the sources under %s changed while the check was running: results would mix two trees; run it again" % runner.REPO)

    # ---- extra deterministic phase of the property (C09: single-fault sweeps)
    extra_info, extra_vs = {}, []
    if hasattr(impl, "extra_phase") and not stop["flag"]:
        extra_info, extra_vs = impl.extra_phase(prop, args.tier, seeds, args.jobs)

    # ---- self-test: determinism of the simulator (same seed twice, fresh processes)
    selftest = {"determinism_seeds": 0, "determinism_ok": None, "skipped": bool(args.no_selftest)}
    if not args.no_selftest and done and not stop["flag"]:
        k = min(SELFTEST[args.tier], len(done))
        again = runner.pmap(lambda s: impl.run_seed(prop, s, impl.new_context(prop, args.tier)), seeds[:k], max(1, args.jobs // 2))
        for a, b in zip(done[:k], again):
            da = [e["digest"] for e in a["execs"]]
            db = [e["digest"] for e in b["execs"]]
            if da != db:
                raise runner.HarnessFailure("determinism self-test failed for seed %d: %s vs %s" % (a["seed"], da, db))
        selftest["determinism_seeds"] = k
        selftest["determinism_ok"] = True  # (a mismatch raised HARNESS-ERROR above)
        extra = impl.selftest(prop, args.tier, seeds, args.jobs)
        selftest.update(extra)

    # ---- violations: group by signature, minimise the first of each, report
    by_sig = {}
    for r in done:
        for v in r["violations"]:
            by_sig.setdefault(v["sig"], []).append(v)
    for v in extra_vs:
        by_sig.setdefault(v["sig"], []).append(v)
    new, listed = [], []
    for sig in sorted(by_sig):
        v = by_sig[sig][0]
        k = known_match(prop, v, known)
        if k is not None and all(known_match(prop, w, known) is not None for w in by_sig[sig]):
            listed.append((k, len(by_sig[sig])))
            continue
        v = next(w for w in by_sig[sig] if known_match(prop, w, known) is None)
        full = impl.write_replay(prop, v, minimised=False)
        path = full
        if not args.no_minimise and v.get("plan") is not None and len(new) < 6:
            try:
                mv = impl.minimise(prop, v, max_seconds=90.0 if args.tier == "quick" else 300.0)
                path = impl.write_replay(prop, mv, minimised=True)
                ok, _, _ = impl.replay(prop, path)
                if not ok:
                    path = full
            except Exception:
                # whatever goes wrong while minimising: the unminimised replay is the report
                path = full
        new.append((sig, v, path, len(by_sig[sig])))
    merged = {}
    for k, cnt in listed:
        key = json.dumps(k, sort_keys=True)
        merged[key] = (k, merged.get(key, (k, 0))[1] + cnt)
    listed = list(merged.values())
    for k, cnt in listed:
        if open_hits.get(k.get("id") or k.get("signature")):
            print("(listed finding %s also met %d time(s) by the seeded workload)" % (k.get("id") or k.get("signature"), cnt))
        else:
            print("KNOWN-FINDING: property=%s %s (signature %s, %d occurrence(s) this run)" % (prop, k.get("what", ""), k.get("signature"), cnt))
    for sig, v, path, cnt in new:
        print("violation: %s  op=%s#%s phase=%s seed=%s x%d  %s" % (sig, v.get("op"), v.get("op_index"), v.get("phase"), (v.get("plan") or {}).get("seed"), cnt, (v.get("detail") or v.get("msg") or "")[:200]))
        print("VIOLATION property=%s replay=%s" % (prop, path))

    wall = time.monotonic() - t0
    seen_known = sorted(set([k.get("id") or k.get("signature") for k, _ in listed] + [i for i, n_ in open_hits.items() if n_]))
    ev = impl.evidence(prop, args.tier, base, done, selftest, wall, t_runs, len(new), seen_known, args.jobs)
    if hasattr(ctx, "stats"):
        ev["coverage"]["goldens"] = dict(ctx.stats)
    ev["coverage"].update(extra_info)
    ev["coverage"]["regression_replays"] = {"executed": len(reg_files), "reproduced": len(reg_hits)}
    ev["coverage"]["provenance"] = {
        "repo": runner.REPO,
        "tree_hash": tree_at_start,
        "repo_commit": runner.repo_commit(),
        "seeds_run": len(done),
        "seeds_of_tier": TIERS[prop][args.tier],
        "seeds_overridden": bool(args.seeds and args.seeds != TIERS[prop][args.tier]),
        "selftest_skipped": bool(args.no_selftest),
        "stopped_early": bool(stop["flag"]),
        "jobs": args.jobs,
        "harness_retries": dict(getattr(impl, "STATS", {})),
        "wall_s_replays_and_selftests": round(wall - t_runs, 1),
    }
    ev["violations"] = len(new) + len(reg_hits)
    os.makedirs(evidence_dir, exist_ok=True)
    with open(os.path.join(evidence_dir, prop + ".json"), "w") as f:
        json.dump(ev, f, indent=1, sort_keys=True)
    print("%s: runs=%d evaluations=%d distinct_nontrivial=%d violations=%d known=%d wall=%.1fs" % (prop, len(done), ev["coverage"]["evaluations"], ev["coverage"]["distinct_nontrivial"], len(new), len(seen_known), wall))
    return 1 if (new or reg_hits) else 0


if __name__ == "__main__":
    sys.exit(main())
