"""Text mutators and construct templates for the C09 workload.

All mutators are pure functions of (rng, text); they produce *text* (str),
never undecodable bytes: C09 speaks about "any input text".
"""

import re

TOKEN_RE = re.compile(r'//[^\n]*|"(?:[^"\\\n]|\\.)*"|0x[0-9a-fA-F]+|[0-9]+|[A-Za-z_][A-Za-z0-9_]*|\n|[ \t\r]+|.', re.S)

KEYWORDS = ["proto", "import", "option", "type", "const", "enum", "message", "typedef"]
TYPES = ["bool", "byte", "uint1", "uint3", "uint8", "uint16", "uint32", "uint63", "uint64", "uint65", "uint0", "uint999999", "int1", "int7", "int8", "int24", "int64", "int65", "int0"]
NUMBERS = ["0", "1", "2", "7", "8", "63", "64", "65", "255", "256", "257", "65535", "65536", "65537", "4294967296", "18446744073709551616", "0x0", "0x1", "0xff", "0xFFFF", "0x10000", "0xFFFFFFFFFFFFFFFFFFFFFFFF", "00", "007", "99999999999999999999999999999999"]
# very long numerals: beyond 2**1024 (float range), around CPython's 4300-digit limit for
# decimal string conversion, long hexadecimal (no such limit)
NUMBERS += ["9" * 309, "1" + "0" * 400, "9" * 4300, "9" * 4301, "1" + "0" * 5000, "0x1" + "0" * 260, "0x" + "f" * 300, "0x" + "f" * 5000, "0" * 5000 + "7"]
BOOLS = ["true", "false", "yes", "no"]
STRINGS = ['"' + "\\\\" * 40, '"' + '\\"' * 40, '"' + "a\\" * 30, '"' + "\\" * 41 + '"', '"' + " " * 2000 + '"', '"' + "\\n" * 500 + '"', "//" + "/" * 3000, '""', '"a"', '"a b"', '"\\n"', '"\\t\\r\\\\"', '"\\""', '"\\\'"', '"\\q"', '"\\"', '"unterminated', '"x.bitproto"', '"é→"', '"//notcomment"', '"' + "a" * 300 + '"']
PUNCT = [":", ";", "{", "}", "[", "]", "(", ")", "/", "=", "\\", "'", ".", "+", "-", "*", ",", "@", "#", "$", "%", "&", "!", "?", "<", ">", "|", "~", "`", "^", '"']
SPACE = [" ", "\t", "\n", "\r", "\r\n", "\n\n", "    ", "\f", "\v", "\x00", "\ufeff", "\u00a0", "\u2028"]
IDENTS = ["A", "a", "_", "__", "Color", "x", "Packet", "Type", "packet_t", "a.b", "a.b.c", "base.Color", "self", "None", "int", "uint", "uintx", "true1", "é", "名前", "Proto", "c.name_prefix", "max_bytes"]
ODD_NAMES = ["_", "__", "___", "_x", "x_", "_X_", "_3d", "_3d_point", "X9", "x9y", "ALLCAPS", "ALL_CAPS_", "lower", "camelCase", "PascalCase", "snake_case", "HTTP_Frame_", "a1b2", "A", "a", "I", "l", "O0", "Type", "Message", "Enum", "String", "Error", "main", "self", "cls", "this", "len", "id", "str", "list", "dict", "object", "None_", "NULL", "bool_", "int_", "uint", "int", "float", "double", "char", "void", "long", "short", "signed", "unsigned", "const_", "static", "struct", "union", "enum_", "typedef_", "return", "goto", "if", "else", "for", "while", "switch", "case", "default", "break", "func", "go", "chan", "map", "range", "package", "var", "interface", "class", "def", "from", "lambda", "pass", "global", "with", "as", "is", "in", "not", "and", "or", "async", "await", "bp", "s", "m", "ctx", "data", "di", "fds", "descriptor", "json", "field", "dataclass", "List", "Dict", "Union", "ClassVar", "IntEnum", "unique", "BYTES_LENGTH", "Encode", "Decode", "Size", "x" * 120]
# names that are pathological for backtracking regular expressions (case converters, lint
# rules): long runs of one character class followed by a character of another class
ODD_NAMES += ["A" * 40 + "b", "A" * 40 + "1b", "AB" * 20 + "c", "a" * 40 + "B", "A" * 20 + "1" * 20 + "a", "x" + "_" * 40 + "y", "A9" * 20 + "z", "MAXCELLVOLTAGEDIFFERENCETHRESHOLDLIMITmV", "a1" * 24 + "B", "Ab" * 24 + "_", "_" + "A" * 36 + "a"]
COMMENTS = ["// c", "//", "// \t", "/* c */", "# c", "///", "// é"]
VOCAB = KEYWORDS + TYPES + NUMBERS + BOOLS + STRINGS + PUNCT + SPACE + IDENTS + COMMENTS

# Unusual-but-plausible constructs; each is a list of lines to splice in.
TEMPLATES = [
    "const DZ = 1 / 0",
    "const ZZ = 0\nconst DY = 5 / ZZ",
    "const DX = 7 / (3 - 3)",
    "const NEG = 2 - 5",
    "const NEGARR = 2 - 5\ntype NegArr = uint3[NEGARR]",
    "const BIG = 0xFFFFFFFFFFFFFFFFFFFFFFFF * 0xFFFFFFFFFFFFFFFF",
    "const BIGARR = 65535 * 65535\ntype BigArr = bool[BIGARR]",
    "const GRP = ((((1))))",
    "const MIX = 1 + 2 * 3 - 4 / 2",
    "const S1 = \"a\"\nconst S2 = S1",
    "const S3 = \"a\"\nconst S4 = S3 + 1",
    "const B1 = true\nconst B2 = B1\nconst B3 = B1 + 1",
    "const B4 = true\ntype B4Arr = bool[B4]",
    "const S5 = \"x\"\ntype S5Arr = bool[S5]",
    "const UND = UNDEFINED_NAME",
    "const UND2 = 1 + UNDEFINED_NAME",
    "const ESC = \"a\\\"b\\\\c\\n\\t\\r\\'\"",
    "const BADESC = \"\\q\"",
    "const MULTI = \"line1\nline2\"",
    "enum EmptyEnum : uint3 {}",
    "enum EmptyEnum2 : uint3 {}\nmessage UsesEmptyEnum {\n    EmptyEnum2 e = 1\n}",
    "enum EmptyEnum3 : uint3 {\n}\nmessage UsesEmptyEnumArr {\n    EmptyEnum3[2] e = 1\n}",
    "enum EmptyEnum4 : uint3 {}\ntype EEArr = EmptyEnum4[3]\nmessage UsesEEArr {\n    EEArr e = 1\n}",
    "message EmptyMsg {}",
    "message EmptyMsgX' {}",
    "message EmptyMsg2 {}\nmessage UsesEmptyMsg {\n    EmptyMsg2 m = 1\n    EmptyMsg2[3] ms = 2\n}",
    "message ImpIn {\n    import \"x.bitproto\"\n}",
    "message ImpIn2 {\n    import xx \"x.bitproto\"\n}",
    "message ImpIn3 {\n    import \"missing_file.bitproto\"\n}",
    "enum ImpInE : uint8 {\n    import \"x.bitproto\"\n}",
    "enum ImpInE2 : uint8 {\n    import xx \"x.bitproto\"\n}",
    "message ConstIn {\n    const A = 1\n}",
    "message AliasIn {\n    type A = uint3\n}",
    "message TypedefIn {\n    typedef uint3 A\n}",
    "message ProtoIn {\n    proto zzz\n}",
    "enum ProtoInE : uint8 {\n    proto zzz\n}",
    "enum MsgInE : uint8 {\n    message X {}\n}",
    "enum EnumInE : uint8 {\n    enum F : uint8 {}\n}",
    "enum OptInE : uint8 {\n    option max_bytes = 1\n}",
    "enum FieldInE : uint8 {\n    uint3 f = 1\n}",
    "enum ConstInE : uint8 {\n    const A = 1\n}",
    "enum AliasInE : uint8 {\n    type A = uint3\n}",
    "enum TypedefInE : uint8 {\n    typedef uint3 A\n}",
    "typedef uint3 OldStyle",
    "typedef uint3[4] OldStyleArr",
    "type ZeroCap = uint3[0]",
    "type BigCap = uint3[65536]",
    "type MaxCap = bool[65535]",
    "type Wide = uint65",
    "type Wide0 = int0",
    "type AliasOfAlias = uint3\ntype AoA2 = AliasOfAlias",
    "message NamedM {}\ntype AliasNamed = NamedM",
    "enum NamedE : uint2 {}\ntype AliasNamedE = NamedE",
    "type TwoD = byte[2][3]",
    "type ArrA = byte[2]\ntype TwoD2 = ArrA[3]",
    "type ArrExt = bool[3]'",
    "type ArrExt2 = bool[3]''",
    "option max_bytes = 3",
    "option c.struct_packing_alignment = 3",
    "option c.struct_packing_alignment = 8",
    "option c.struct_packing_alignment = \"8\"",
    "option c.name_prefix = \"pre_\"",
    "option c.name_prefix = 5",
    "option c.name_prefix = \"9 bad-prefix\"",
    "option py.module_name = \"mod\"",
    "option go.package_path = \"github.com/x/y\"",
    "option unknown.opt = 1",
    "option c.enable_render_json_formatter = false",
    "option c.enable_render_json_formatter = 1",
    "const OPTV = 4\noption c.struct_packing_alignment = OPTV",
    "const OPTS = \"p\"\noption c.name_prefix = OPTS",
    "const OPTB = 4\nmessage OptRef {\n    option max_bytes = OPTB\n    uint8 a = 1\n}",
    "message OptStr {\n    option max_bytes = \"a\"\n}",
    "message OptUnk {\n    option nope = 1\n}",
    "message KwField {\n    uint3 type = 1\n}",
    "message KwField2 {\n    uint3 message = 1\n}",
    "message KwField3 {\n    uint3 import = 1\n    uint3 option = 2\n}",
    "message FieldNo0 {\n    uint3 a = 0\n}",
    "message FieldNo256 {\n    uint3 a = 256\n}",
    "message FieldNo255 {\n    uint3 a = 255\n}",
    "message FieldNoHex {\n    uint3 a = 0x1\n}",
    "message DupNo {\n    uint3 a = 1\n    uint3 b = 1\n}",
    "message DupName {\n    uint3 a = 1\n    uint3 a = 2\n}",
    "message SelfRef {\n    SelfRef m = 1\n}",
    "message SelfRefArr {\n    SelfRefArr[2] m = 1\n}",
    "message TooBig {\n    byte[8192] a = 1\n}",
    "message AlmostTooBig {\n    byte[8191] a = 1\n    uint7 b = 2\n}",
    "message TooBigExt' {\n    byte[8190] a = 1\n}",
    "message MaxBytes1 {\n    option max_bytes = 1\n    uint64 a = 1\n}",
    "message MaxBytes0 {\n    option max_bytes = 0\n    uint64 a = 1\n}",
    "enum EOver : uint2 {\n    A_OVER = 4\n}",
    "enum EDup : uint2 {\n    A_DUP = 1\n    B_DUP = 1\n}",
    "enum EDupName : uint2 {\n    A_DN = 1\n    A_DN = 2\n}",
    "enum EWide : uint64 {\n    A_WIDE = 18446744073709551615\n}",
    "enum EWide2 : uint64 {\n    A_WIDE2 = 18446744073709551616\n}",
    "enum EInt : int8 {\n    A_EI = 1\n}",
    "enum EBool : bool {\n    A_EB = 1\n}",
    "enum E65 : uint65 {\n    A_E65 = 1\n}",
    "enum ENoZero : uint3 {\n    ONLY_ONE = 1\n}\nmessage UsesENoZero {\n    ENoZero e = 1\n    ENoZero[2] es = 2\n}",
    "enum ESemi : uint3 { S_A = 0; S_B = 1; }",
    "import \"x.bitproto\"",
    "import \"./x.bitproto\"",
    "import xa \"x.bitproto\"\nimport xb \"x.bitproto\"",
    "import \"x.bitproto\"\nimport \"sub/../x.bitproto\"",
    "import \"x.bitproto\"\nimport xl \"x_link.bitproto\"",
    "import \"x.bitproto\"\nimport xh \"x_hard.bitproto\"",
    "import \"missing_file.bitproto\"",
    "import \"\"",
    "import \".\"",
    "import \"/\"",
    "import \"sub\"",
    "import \"/w/abs/x.bitproto\"",
    "import \"cyc_a.bitproto\"",
    "import \"loop_link.bitproto\"",
    "import \"@SELF@\"",
    "import \"./@SELF@\"",
    "import \"sub/../@SELF@\"",
    "import me \"../@DIR@/@SELF@\"",
    "import \"cyc_c.bitproto\"",
    "import \"./cyc_d.bitproto\"",
    "import \"self_dot.bitproto\"",
    "import \"sub/../self_updown.bitproto\"",
    "import \"sub/up.bitproto\"",
    "import x \"x.bitproto\"\nmessage UsesX {\n    x.XM m = 1\n    x.XE e = 2\n    x.XT t = 3\n}\nconst FROMX = x.XC",
    "import \"x.bitproto\"\nmessage UsesX2 {\n    x.XM[2] m = 1\n    x.Nope n = 2\n}",
    "import \"x.bitproto\"\nmessage x {}",
    "import Dup \"x.bitproto\"\nenum Dup : uint1 {}",
    "import \"y.bitproto\"\nmessage UsesY {\n    y.x.XM m = 1\n}",
    "message DotUndef {\n    A.B.C x = 1\n}",
    "const LIMIT = 4\nmessage DotConst {\n    byte[LIMIT.max] p = 1\n}",
    "const LIM2 = 4\nconst LIM3 = LIM2.x + 1",
    "type DotAl = uint3\nmessage DotAlias {\n    DotAl.x f = 1\n}",
    "enum DotEn : uint2 {\n    DOT_A = 0\n}\nmessage DotEnum {\n    DotEn.DOT_A f = 1\n    DotEn.DOT_A.x g = 2\n}",
    "message DotOuter {\n    message Inner {}\n}\nmessage DotShadow {\n    uint8 DotOuter = 1\n    DotOuter.Inner inner = 2\n}",
    "message DotField {\n    uint8 a = 1\n    a.b c = 2\n}",
    "import \"x.bitproto\"\nmessage DotImp {\n    x.XC.y f = 1\n    x.XM.b g = 2\n}\nconst DOTIMP = x.XM.b",
    "option c.name_prefix = \"p\"\nconst DOTOPT = c.name_prefix",
    "message RefConst {\n    XC x = 1\n}",
    "const NOTTYPE = 1\nmessage RefNotType {\n    NOTTYPE x = 1\n}",
    "message NotConst {}\nconst RNC = NotConst",
    "message NotConst2 {}\ntype NCArr = bool[NotConst2]",
    "proto second_name",
    "proto third;",
    "message Sc {\n    uint3 a = 1;\n};",
    "message Nest1 {\n    message Nest2 {\n        message Nest3 {\n            enum NE : uint1 {}\n            NE e = 1\n        }\n        Nest3 n = 1\n    }\n    Nest2 n = 1\n    Nest2.Nest3 m = 2\n}",
    "message Shadow {\n    message Shadow {\n        bool b = 1\n    }\n    Shadow s = 1\n}",
    "message Ext' {\n    bool[3]' a = 1\n    message In' {}\n    In i = 2\n}",
    "message Unclosed {\n    uint3 a = 1",
    "}",
    "{",
    "message {}",
    "message 9X {}",
    "message X9 {}\nmessage X {\n    bool[2] a = 12\n}\nmessage X1 {\n    bool[2] a = 2\n}",
    "enum : uint3 {}",
    "type = uint3",
    "const = 1",
    "message M M {}",
    "uint3 stray_field = 1",
    "= = =",
    "\x00",
    "\ufeffproto bom",
    "// only a comment",
    "// comment without newline at eof",
    "message CrLf {\r\n    bool b = 1\r\n}\r\n",
    "message Tabs {\n\tbool b = 1\n}",
    "message Cmt { // trailing\n    bool b = 1 // trailing\n    // own line\n}",
    "/* block comment */",
    "message LongName" + "x" * 500 + " {}",
    "message DeepArr {\n    int64[65535] a = 1\n}",
]

def _coincidence_templates():
    """Valid (or nearly valid) schemas built around narrow numeric, positional,
    naming, mode and length coincidences."""
    t = []
    big = "0x1" + "0" * 260
    for op in ("+", "-", "*", "/"):
        t.append("const BIGV = %s\nconst NEGV = 0 - BIGV\nconst SMALLNEG = 0 - 3\nconst R1 = NEGV %s 3\nconst R2 = BIGV %s SMALLNEG\nconst R3 = NEGV %s SMALLNEG\nconst R4 = 7 %s NEGV\nconst R5 = BIGV %s BIGV\nconst R6 = (NEGV %s 3) %s (BIGV %s 7)" % (big, op, op, op, op, op, op, op, op))
    t.append("const DEC309 = %s\nconst DEC309N = 0 - DEC309\nconst QD = DEC309N / 7\nconst QE = DEC309 / (0 - 7)" % ("9" * 309))
    t.append("const TOOLONG = %s" % ("9" * 4301))
    t.append("const HUGEHEX = 0x%s\nconst HUGEHEX2 = HUGEHEX * HUGEHEX\nconst HUGENEG = 0 - HUGEHEX" % ("f" * 5000))
    t.append("const JUSTFITS = %s\nconst JUSTOVER = JUSTFITS * 10" % ("9" * 4300))
    t.append("type TooWide = uint%s" % ("1" * 4400))
    t.append("type TooWideI = int%s[2]" % ("1" * 4400))
    t.append("type TooMany = byte[%s]" % ("1" * 4400))
    t.append("enum TooBigV : uint8 {\n    TBV = %s\n}" % ("1" * 4400))
    t.append("message TooBigN {\n    bool b = %s\n}" % ("1" * 4400))
    t.append("option max_bytes = %s" % ("1" * 4400))
    t.append("const P63 = 9223372036854775808\nconst P64 = 18446744073709551616\nconst P64M = 18446744073709551615\nconst P63M = 9223372036854775807\nenum E64 : uint64 {\n    E64_MAX = 18446744073709551615\n    E64_ZERO = 0\n    E64_HALF = 9223372036854775808\n}\nmessage UsesE64 {\n    E64 e = 1\n    E64[2] es = 2\n}")
    t.append("const CAPD = 64 / 8\nconst CAPE = (3 + 5) * 2 - 8\ntype CapArr = byte[CAPD]\nmessage UsesCapD {\n    CapArr a = 1\n    uint8[CAPE] b = 2\n    CapArr[CAPD] c = 3\n}")
    t.append("message Max65535 {\n    option max_bytes = 8192\n    byte[8191] a = 1\n    uint7 b = 2\n}")
    t.append("message Max65535Ext' {\n    byte[8189] a = 1\n    uint7 b = 2\n}")
    t.append("message Over65535 {\n    byte[8191] a = 1\n    uint8 b = 2\n}")
    t.append("message F255 {\n" + "\n".join("    bool f%d = %d" % (i, i) for i in range(1, 256)) + "\n}")
    t.append("message F255Rev {\n" + "\n".join("    uint%d g%d = %d" % ((i % 64) + 1, i, 256 - i) for i in range(1, 256)) + "\n}")
    t.append("enum M256 : uint8 {\n" + "\n".join("    M256_V%d = %d" % (i, i) for i in range(256)) + "\n}\nmessage UsesM256 {\n    M256 m = 1\n}")
    t.append("enum M257 : uint9 {\n" + "\n".join("    M257_V%d = %d" % (i, i) for i in range(257)) + "\n}")
    for n in (255, 256, 1024):
        t.append("message L%s {\n    bool %s = 1\n}\nconst S%d = \"%s\"" % ("x" * (n - 1), "y" * n, n, "z" * n))
    deep = ""
    for d in range(16):
        deep += "    " * d + "message D%d {\n" % d
    deep += "    " * 16 + "bool leaf = 1\n"
    for d in reversed(range(16)):
        deep += "    " * d + ("    D%d d%d = 2\n" % (d + 1, d + 1) if d < 15 else "") + "    " * d + "}\n"
    t.append(deep)
    for n in (200, 600):
        # very deep nesting: accepted; beyond ~500 levels lint and every renderer exceed the
        # interpreter's recursion limit on the pinned tree (listed as an open known finding)
        txt = "".join("message V%d {\n" % d for d in range(n)) + "bool leaf = 1\n"
        for d in reversed(range(n)):
            txt += ("V%d v_%d = 2\n" % (d + 1, d + 1) if d < n - 1 else "") + "}\n"
        t.append(txt)
    # long chains of *references* (not of nesting): every definition refers to the previous one
    for n in (100, 318, 400):
        # array alias of array alias ...: beyond ~320 links Array.nbits/Alias.nbits exceed the
        # recursion limit during parsing (listed as an open known finding), slightly below that
        # the schema is accepted and the renderers' recursion is the deeper one
        t.append("type AC0 = uint8[2]\n" + "".join("type AC%d = AC%d[1]\n" % (k, k - 1) for k in range(1, n + 1)) + "message UsesAC {\n    AC%d x = 1\n}" % n)
    t.append("message MC0 {\n    uint8 x = 1\n}\n" + "".join("message MC%d {\n    MC%d x = 1\n}\n" % (k, k - 1) for k in range(1, 600)))
    t.append("message AMC0 {\n    uint8 x = 1\n}\n" + "".join("message AMC%d {\n    AMC%d[1] x = 1\n}\n" % (k, k - 1) for k in range(1, 300)))
    t.append("const CC0 = 1\n" + "".join("const CC%d = CC%d + 1\n" % (k, k - 1) for k in range(1, 1500)) + "message UsesCC {\n    byte[CC1499] b = 1\n}")
    # (Round 9: reference DAGs with fan-out -- every level refers to the level below twice, or 255
    # times through an array, with zero-bit leaves -- were tried as templates here. They found a
    # genuine defect (repaired by 8f20487, regressions/C09-8f20487-*), but confirming every hang at
    # 20x the limits made the quick tier take more than 15 minutes, so they are NOT part of the
    # seeded workload; see DESIGN.md section 12, round 9.)
    t.append("const PAREN = " + "(" * 1200 + "1" + ")" * 1200)
    t.append("const SUM = " + " + ".join(["1"] * 5000))
    t.append("message SameLineA {\n    bool x = 1\n} message SameLineB {\n    bool y = 1\n}")
    t.append("message OneLine { bool z = 1; uint3 w = 2; }")
    t.append("message OneLine2 { bool z = 1; } enum OneLineE : uint1 { OLE_A = 0; OLE_B = 1; } type OneLineT = uint3; const ONELINE = 1;")
    t.append("message CmtBeforeClose {\n    bool a = 1\n    // the last thing in the scope is a comment\n}\nenum CmtBeforeCloseE : uint1 {\n    CBC_A = 0\n    // trailing\n}")
    t.append("message Outer {\n    message Inner {\n        bool b = 1\n    }\n    Inner i = 1\n}\nmessage Outer_Inner {\n    bool c = 1\n}\nmessage OuterInner {\n    bool d = 1\n}\nmessage UsesAll {\n    Outer.Inner a = 1\n    Outer_Inner b = 2\n    OuterInner c = 3\n}")
    t.append("type Uint8 = uint8\ntype Byte = byte\ntype Bool = bool\ntype Int = int32\ntype Uint = uint64[2]\nmessage UsesTypeNames {\n    Uint8 a = 1\n    Byte b = 2\n    Bool c = 3\n    Int d = 4\n    Uint e = 5\n}")
    t.append("message Color {\n    bool b = 1\n}\nenum Palette : uint2 {\n    Color = 0\n    Palette = 1\n}\nmessage UsesPalette {\n    Palette p = 1\n    Color c = 2\n}")
    t.append("message Selfie {\n    uint8 Selfie = 1\n    uint8 selfie = 2\n    uint8 SELFIE = 3\n}")
    t.append("import KX \"x.bitproto\"\nconst KXC = KX.XC\nconst KX2 = KXC * 2\nmessage UsesKX {\n    KX.XM m = 1\n    byte[KX2] b = 2\n}")
    t.append("message W24 {\n    uint7 pad = 1\n    uint24 a = 2\n    int40 b = 3\n    uint48 c = 4\n    int56 d = 5\n    uint1 e = 6\n    int63 f = 7\n}")
    t.append("type Flags = bool[9]\nmessage OnlyFlags {\n    Flags f = 1\n}\nmessage OneBit {\n    bool b = 1\n}\nmessage OneInt64 {\n    int64 v = 1\n}")
    t.append("enum Big : uint64 {\n    BIG_A = 0\n}\nmessage Nothing {}\nmessage HasBoth {\n    Big b = 1\n    Nothing n = 2\n    Nothing[3] ns = 3\n    Big[2] bs = 4\n}")
    t.append("type I64A = int64[3]\ntype I64AA = I64A[2]\nmessage Batch {\n    uint3 pad = 1\n    I64AA m = 2\n    int8[5] s8 = 3\n    uint16[5] u16 = 4\n    int32[2] s32 = 5\n}")
    return t


TEMPLATES = TEMPLATES + _coincidence_templates()

HELPER_FILES = {
    "x.bitproto": "proto x\n\nconst XC = 3\n\nenum XE : uint2 {\n    XE_A = 0\n    XE_B = 1\n}\n\ntype XT = uint5[2]\n\nmessage XM {\n    bool b = 1\n    XE e = 2\n}\n",
    "y.bitproto": "proto y\n\nimport \"x.bitproto\"\n\nmessage YM {\n    x.XM m = 1\n}\n",
    "cyc_a.bitproto": "proto cyc_a\n\nimport \"cyc_b.bitproto\"\n",
    "cyc_b.bitproto": "proto cyc_b\n\nimport \"cyc_a.bitproto\"\n",
    "sub/z.bitproto": "proto z\n\nimport \"../x.bitproto\"\n\nmessage ZM {\n    x.XE e = 1\n}\n",
    "cyc_c.bitproto": "proto cyc_c\n\nimport \"./cyc_d.bitproto\"\n",
    "cyc_d.bitproto": "proto cyc_d\n\nimport \"sub/../cyc_c.bitproto\"\n",
    "self_dot.bitproto": "proto self_dot\n\nimport \"./self_dot.bitproto\"\n",
    "self_updown.bitproto": "proto self_updown\n\nimport \"sub/../self_updown.bitproto\"\n",
    "sub/up.bitproto": "proto up\n\nimport \"../sub/up.bitproto\"\n",
}


def tokenize(text: str):
    return TOKEN_RE.findall(text)


def _pick_pos(rng, n):
    return rng.below(n) if n > 0 else 0


def mutate_once(rng, text: str, idents=None) -> str:
    toks = tokenize(text)
    lines = text.split("\n")
    vocab = VOCAB + (idents or [])
    kind = rng.weighted(
        [
            ("tok_del", 10),
            ("tok_ins", 12),
            ("tok_rep", 14),
            ("tok_swap", 5),
            ("tok_dup", 5),
            ("line_del", 6),
            ("line_dup", 6),
            ("line_swap", 4),
            ("line_move", 4),
            ("trunc_char", 4),
            ("trunc_tok", 4),
            ("trunc_line", 3),
            ("splice", 22),
            ("num", 8),
            ("char_ins", 4),
            ("char_del", 4),
            ("brace", 4),
            ("self_dup", 2),
            ("str_escape", 6),
            ("str_new", 3),
            ("ident_case", 3),
            ("dotted", 6),
            ("rename_all", 8),
            ("rename_one", 14),
        ]
    )
    sig = [i for i, t in enumerate(toks) if not t.isspace()] or list(range(len(toks)))
    if kind == "tok_del" and toks:
        i = rng.choice(sig)
        del toks[i]
        return "".join(toks)
    if kind == "tok_ins":
        i = _pick_pos(rng, len(toks) + 1)
        toks.insert(i, rng.choice(vocab))
        if rng.chance(0.7):
            toks.insert(i, " ")
            toks.insert(i + 2, " ")
        return "".join(toks)
    if kind == "tok_rep" and toks:
        i = rng.choice(sig)
        toks[i] = rng.choice(vocab)
        return "".join(toks)
    if kind == "tok_swap" and len(sig) > 1:
        k = rng.below(len(sig) - 1)
        i, j = sig[k], sig[k + 1]
        toks[i], toks[j] = toks[j], toks[i]
        return "".join(toks)
    if kind == "tok_dup" and toks:
        i = rng.choice(sig)
        toks.insert(i, toks[i])
        return "".join(toks)
    if kind == "line_del" and len(lines) > 1:
        del lines[rng.below(len(lines))]
        return "\n".join(lines)
    if kind == "line_dup" and lines:
        i = rng.below(len(lines))
        lines.insert(i, lines[i])
        return "\n".join(lines)
    if kind == "line_swap" and len(lines) > 1:
        i = rng.below(len(lines) - 1)
        lines[i], lines[i + 1] = lines[i + 1], lines[i]
        return "\n".join(lines)
    if kind == "line_move" and len(lines) > 1:
        l = lines.pop(rng.below(len(lines)))
        lines.insert(rng.below(len(lines) + 1), l)
        return "\n".join(lines)
    if kind == "trunc_char" and text:
        return text[: rng.below(len(text))]
    if kind == "trunc_tok" and toks:
        return "".join(toks[: rng.below(len(toks))])
    if kind == "trunc_line" and lines:
        return "\n".join(lines[: rng.below(len(lines))])
    if kind == "splice":
        tpl = rng.choice(TEMPLATES)
        i = rng.below(len(lines) + 1)
        if rng.chance(0.25):
            # indent as if inside a scope
            tpl = "\n".join("    " + l for l in tpl.split("\n"))
        lines[i:i] = tpl.split("\n")
        return "\n".join(lines)
    if kind == "num":
        nums = [i for i, t in enumerate(toks) if t[:1].isdigit()]
        if nums:
            toks[rng.choice(nums)] = rng.choice(NUMBERS)
            return "".join(toks)
    if kind == "char_ins":
        i = rng.below(len(text) + 1)
        ch = rng.choice(["'", '"', "\\", "\n", "/", "{", "}", ";", " ", "0", "x", "é", "\x00", "\t", ".", "=", "[", "]"])
        return text[:i] + ch + text[i:]
    if kind == "char_del" and text:
        i = rng.below(len(text))
        return text[:i] + text[i + 1 :]
    if kind == "brace":
        braces = [i for i, t in enumerate(toks) if t in "{}"]
        if braces and rng.chance(0.6):
            del toks[rng.choice(braces)]
        else:
            toks.insert(_pick_pos(rng, len(toks) + 1), rng.choice(["{", "}"]))
        return "".join(toks)
    if kind == "self_dup":
        return text + "\n" + text
    if kind in ("str_escape", "str_new"):
        esc = "\\" + rng.choice(list("abcdefghijklmnopqrstuvwxyzABCXNU0123456789\\'\"/ ?*[](){}.-+%$#@!~^&|<>,;:=_`") + ["\n", "\t", "é", "x41", "u0041", "\r"])
        strs = [i for i, t in enumerate(toks) if len(t) >= 2 and t[0] == '"' and t[-1] == '"']
        if strs and kind == "str_escape":
            i = rng.choice(strs)
            body = toks[i][1:-1]
            k = rng.below(len(body) + 1)
            toks[i] = '"' + body[:k] + esc + body[k:] + '"'
            return "".join(toks)
        body = "".join(rng.choice(["a", "b", " ", esc, "/", "'", "1"]) for _ in range(rng.randint(0, 5)))
        name = "S_" + rng.choice(["A", "B", "ESC"])
        where = rng.below(len(lines) + 1)
        lines.insert(where, 'const %s = "%s"' % (name, body))
        return "\n".join(lines)
    if kind == "rename_all":
        # consistent renaming keeps the schema acceptable while giving a definition an odd name
        ids = sorted({t for t in toks if re.match(r"[A-Za-z_]\w*$", t) and t not in KEYWORDS and not re.match(r"(u?int\d+|bool|byte|true|false|yes|no)$", t)})
        if ids:
            old = rng.choice(ids)
            new = rng.choice(ODD_NAMES)
            if new not in ids:
                return "".join(new if t == old else t for t in toks)
    if kind == "rename_one":
        # ONE occurrence of a name gets an odd spelling: usually an unresolved reference (or an
        # option, a member, a definition nobody refers to any more) whose *content* is unusual --
        # what diagnostics ("... not defined", suggestions, caret lines) are built from
        ids = [i for i, t in enumerate(toks) if re.match(r"[A-Za-z_]\w*$", t) and t not in KEYWORDS and not re.match(r"(u?int\d+|bool|byte|true|false|yes|no)$", t)]
        if ids:
            i = rng.choice(ids)
            # (degenerate spellings first: nothing left after stripping underscores, one character)
            odd = rng.choice(["_", "__", "___", "_", "a", "A", "_1", "_x"]) if rng.chance(0.4) else rng.choice(ODD_NAMES + ["%", "{}", "{0}", "%s", "\\", "é", "名前"])
            toks[i] = rng.choice([odd, odd, odd, toks[i] + "." + odd, odd + "." + toks[i], odd + "." + odd])
            return "".join(toks)
    if kind == "dotted":
        # turn a simple reference into a dotted one (through whatever that name denotes)
        ids = [i for i, t in enumerate(toks) if re.match(r"[A-Za-z_]\w*$", t) and t not in KEYWORDS]
        if ids:
            i = rng.choice(ids)
            t = toks[i]
            other = toks[rng.choice(ids)]
            toks[i] = rng.choice([t + "." + other, other + "." + t, t + "." + t, t + ".max", t + "." + other + "." + t, "." + t, t + "."])
            return "".join(toks)
    if kind == "ident_case":
        ids = [i for i, t in enumerate(toks) if re.match(r"[A-Za-z_]\w*$", t) and t not in KEYWORDS]
        if ids:
            i = rng.choice(ids)
            t = toks[i]
            toks[i] = rng.choice([t.upper(), t.lower(), t.capitalize(), "_" + t, t + "_", t + "1", t[:1], t * 2, "type", "class", "def", "from", "int", "struct", "func", "default"])
            return "".join(toks)
    # fall back
    i = _pick_pos(rng, len(toks) + 1)
    toks.insert(i, rng.choice(vocab))
    return "".join(toks)


def mutate(rng, text: str, n: int) -> str:
    idents = sorted(set(t for t in tokenize(text) if re.match(r"[A-Za-z_]\w*$", t)))[:60]
    for _ in range(n):
        text = mutate_once(rng, text, idents)
        if len(text) > 60000:
            text = text[:60000]
    return text


def corrupt_bytes(rng, text: str) -> str:
    """Byte-level mutation of the encoded file: the result may not be valid UTF-8.
    Returned as str with the undecodable bytes as lone surrogates (surrogateescape)."""
    data = bytearray(text.encode("utf-8", "surrogateescape"))
    for _ in range(rng.randint(1, 3)):
        k = rng.choice(["ins", "flip", "cut_multibyte", "latin1", "overlong", "bom16"])
        pos = rng.below(len(data) + 1)
        if k == "ins":
            data[pos:pos] = bytes([rng.choice([0xFF, 0xFE, 0x80, 0xC3, 0xE2, 0xF0, 0xC0, 0xED])])
        elif k == "flip" and data:
            pos = rng.below(len(data))
            data[pos] ^= 0x80
        elif k == "cut_multibyte":
            data[pos:pos] = "é→😀".encode("utf-8")[: rng.randint(1, 8)]
        elif k == "latin1":
            data[pos:pos] = "// caf\xe9 na\xefve\n".encode("latin-1")
        elif k == "overlong":
            data[pos:pos] = b"\xc0\xaf"
        else:
            data[0:0] = b"\xff\xfe"
    return bytes(data).decode("utf-8", "surrogateescape")


def random_tokens(rng, n: int) -> str:
    out = []
    for _ in range(n):
        out.append(rng.choice(VOCAB))
        out.append(rng.choice([" ", " ", " ", "\n", ""]))
    return "".join(out)


def grammar_walk(rng, depth: int = 0) -> str:
    """Random sentences that follow the grammar loosely (deeper into the parser
    than uniform token soup)."""
    r = rng

    def ident():
        return r.choice(["A", "B", "Cc", "d_e", "Msg", "Enm", "x.XM", "x.XE", "Undefined", "K", "K.x", "A.B", "x.XC.y", "x.XT.z", "Msg.fa", "Enm.A0"])

    def typ():
        base = r.choice(["bool", "byte", "uint%d" % r.choice([1, 8, 33, 64, 65]), "int%d" % r.choice([1, 8, 33, 64, 0]), ident()])
        if r.chance(0.35):
            base += "[%s]" % r.choice(["1", "3", "0", "65535", "65536", "K", "Undefined"])
            if r.chance(0.3):
                base += "'"
        return base

    def expr(d=0):
        if d > 3 or r.chance(0.4):
            return r.choice(["0", "1", "2", "7", "0x10", "K", "Undefined", "true", '"s"'])
        op = r.choice(["+", "-", "*", "/"])
        e = "%s %s %s" % (expr(d + 1), op, expr(d + 1))
        return "(%s)" % e if r.chance(0.3) else e

    out = []
    if r.chance(0.9):
        out.append("proto gw")
    if r.chance(0.5):
        out.append('import "x.bitproto"')
    out.append("const K = %s" % expr())
    for _ in range(r.randint(1, 6)):
        k = r.choice(["const", "enum", "type", "message", "option"])
        if k == "const":
            out.append("const %s = %s" % (ident().upper().replace(".", "_"), expr()))
        elif k == "enum":
            body = "\n".join("    %s = %s" % (ident().upper().replace(".", "_") + str(i), r.choice(["0", "1", "2", "3", "255", "256"])) for i in range(r.randint(0, 3)))
            out.append("enum %s : uint%d {\n%s\n}" % (ident().replace(".", "_"), r.choice([1, 2, 8, 64]), body))
        elif k == "type":
            out.append("type %s = %s" % (ident().replace(".", "_"), typ()))
        elif k == "option":
            out.append("option %s = %s" % (r.choice(["max_bytes", "c.name_prefix", "c.struct_packing_alignment", "py.module_name", "nope"]), expr()))
        else:
            body = []
            for i in range(r.randint(0, 4)):
                if r.chance(0.15) and depth < 2:
                    body.append("    " + grammar_walk(r, depth + 2).replace("\n", "\n    "))
                else:
                    body.append("    %s f%s = %s" % (typ(), "abcde"[i], r.choice(["1", "2", "3", "0", "255", "256", str(i + 1)])))
            out.append("message %s%s {\n%s\n}" % (ident().replace(".", "_"), "'" if r.chance(0.3) else "", "\n".join(body)))
    return "\n".join(out) + "\n"
