"""Golden reference for C18: the system itself in the simplest environment.

One request = one compile key. The real compiler from /repo's working tree is
run on the REAL file system in a scratch directory, in this fresh interpreter
(variant A: exactly one key per process; variant B: several keys per process,
each after a module purge, under another hash seed / ASLR / cwd / path style).
No simulator seam is installed here except turning os._exit into an exception.
"""

import hashlib
import io
import os
import shutil
import sys
import tempfile

from . import mutate


class _Exit(BaseException):
    def __init__(self, code):
        self.code = code


def _sha(b: bytes) -> str:
    return hashlib.sha256(b).hexdigest()[:20]


def _purge():
    for name in [m for m in sys.modules if m == "bitproto" or m.startswith("bitproto.") or m == "ply" or m.startswith("ply.")]:
        del sys.modules[name]


def lay_out(root: str, req: dict) -> None:
    os.makedirs(os.path.join(root, "out"), exist_ok=True)
    for rel, text in req["files"].items():
        p = os.path.join(root, rel)
        os.makedirs(os.path.dirname(p), exist_ok=True)
        with open(p, "wb") as f:
            f.write(text.encode("utf-8", "surrogateescape"))
    if req.get("extras"):
        os.makedirs(os.path.join(root, "sub"), exist_ok=True)
        for rel, text in mutate.HELPER_FILES.items():
            p = os.path.join(root, rel)
            if rel not in req["files"] and not os.path.exists(p):
                with open(p, "w", encoding="utf-8", newline="") as f:
                    f.write(text)
        for link, target in (("x_link.bitproto", "x.bitproto"), ("loop_link.bitproto", "loop_link2.bitproto"), ("loop_link2.bitproto", "loop_link.bitproto")):
            lp = os.path.join(root, link)
            if not os.path.lexists(lp):
                os.symlink(target, lp)
        hp = os.path.join(root, "x_hard.bitproto")
        if not os.path.lexists(hp):
            os.link(os.path.join(root, "x.bitproto"), hp)


def classify(exc) -> str:
    import bitproto.errors as errors

    if isinstance(exc, (_Exit, SystemExit)):
        code = exc.code
        if code is not None:
            code = (int(code) & 0xFF) if isinstance(code, int) else 1
        return "%s:%s" % ("exit" if isinstance(exc, _Exit) else "sysexit", code)
    if isinstance(exc, errors.ParserError):
        return "parser_error:" + type(exc).__name__
    if isinstance(exc, errors.RendererError):
        return "renderer_error:" + type(exc).__name__
    if isinstance(exc, errors.Error) and not isinstance(exc, errors.InternalError):
        return "reported_error:" + type(exc).__name__
    if isinstance(exc, OSError):
        import errno

        return "oserror:" + errno.errorcode.get(exc.errno, str(exc.errno))
    return "internal:" + type(exc).__name__


def one(req: dict, variant: str) -> dict:
    _purge()
    import bitproto

    from .simfs import REPO, HarnessError

    if not (bitproto.__file__ or "").startswith(REPO + "/"):

        raise HarnessError("golden: bitproto imported from %r" % bitproto.__file__)
    top = tempfile.mkdtemp(prefix="verif-golden-")
    old_cwd = os.getcwd()
    old_exit, old_argv, old_err, old_out = os._exit, sys.argv, sys.stderr, sys.stdout
    try:
        # mimic the simulated layout loosely: <top>/w/<proj>; /w/abs cannot exist for real,
        # keys never depend on it (an absolute import of it fails identically in both worlds
        # only if absent, so templates using it are unkeyed by construction: extras => hash)
        # B: a long absolute path (> 150 characters) with spaces and non-ASCII characters
        mid = ("deeply nested checkout of the project " + "x" * 40 + " caf\u00e9", "build-tree-" + "y" * 50) if variant == "B" else ()
        root = os.path.join(top, *mid, "w", req.get("dirname") or "proj")
        lay_out(root, req)
        if variant == "B":
            # B: a crowded source directory (unrelated files next to the sources)
            for name, text in (("README.txt", "notes\n"), ("unrelated_bp.c.orig", "/* old */\n"), ("zz_backup.bitproto.bak", "proto junk\n"), (".hidden", ""), ("Makefile", "all:\n")):
                pth = os.path.join(root, name)
                if not os.path.lexists(pth):
                    with open(pth, "w") as f:
                        f.write(text)
            os.makedirs(os.path.join(root, "empty_dir"), exist_ok=True)
        if variant == "A":
            # A: sources last modified long ago (B: a moment ago)
            for d, _, fs_ in os.walk(root):
                for f in fs_:
                    try:
                        os.utime(os.path.join(d, f), (1000000000, 1000000000), follow_symlinks=False)
                    except (OSError, NotImplementedError):
                        pass
        main = os.path.join(root, req["main"])
        if variant == "A":
            os.chdir(top)
            path = main
            outdir = os.path.join(root, "out")
        else:
            os.chdir(root)
            path = req["main"]
            outdir = "out"

        def fake_exit(code=0):
            raise _Exit(code)

        os._exit = fake_exit
        from .seams import _Capture

        sys.stderr, sys.stdout = _Capture(2), _Capture(1)
        outcome = "ok"
        msg = ""
        try:
            if req.get("api") == "parse":
                from bitproto.parser import parse

                parse(path, traditional_mode=bool(req.get("trad")))
            elif req.get("api") == "render":
                from bitproto.linter import lint
                from bitproto.parser import parse
                from bitproto.renderer import render

                proto = parse(path, traditional_mode=bool(req.get("opt")))
                if variant != "A":
                    lint(proto)
                render(
                    proto,
                    req["lang"],
                    outdir=outdir,
                    optimization_mode=bool(req.get("opt")),
                    optimization_mode_filter_messages=req.get("filter"),
                    optimization_mode_endian=req.get("endian", "both"),
                )
            else:
                argv = ["bitproto", req["lang"], path, outdir]
                if variant == "A":
                    argv.append("-q")
                if req.get("opt"):
                    argv.append("-O")
                    if req.get("filter"):
                        argv += ["-F", ",".join(req["filter"])]
                    if req.get("endian", "both") != "both":
                        argv += ["--endian", req["endian"]]
                sys.argv = argv
                from bitproto._main import run_bitproto

                ret = run_bitproto()
                if ret not in (None, 0):
                    outcome = "sysexit:%s" % ((int(ret) & 0xFF) if isinstance(ret, int) else 1,)  # what `sys.exit(run_bitproto())` would do
        except BaseException as e:  # noqa
            outcome = classify(e)
            msg = str(e)[:200]
        finally:
            os._exit = old_exit
            sys.argv = old_argv
            try:
                sys_err_text = sys.stderr.getvalue()[-2000:]
            except Exception:
                sys_err_text = ""
            sys.stderr, sys.stdout = old_err, old_out
        outputs = {}
        od = os.path.join(root, "out")
        for f in sorted(os.listdir(od)):
            with open(os.path.join(od, f), "rb") as fh:
                outputs[f] = _sha(fh.read())
        res = {"outcome": outcome, "outputs": outputs}
        if "recursion limit" in msg or (outcome.startswith(("exit:", "sysexit:")) and "recursion limit" in sys_err_text):
            res["resource_limit"] = True  # see oracles.c18_violations
        return res
    finally:
        os.chdir(old_cwd)
        shutil.rmtree(top, ignore_errors=True)


def execute(plan: dict) -> dict:
    variant = plan.get("variant", "A")
    res = {}
    for kid, req in plan["requests"].items():
        res[kid] = one(req, variant)
    return {"goldens": res}
