"""Write-ahead markers of a worker.

Before and after every call into the system under test the worker writes one
line to its saved real stdout (unbuffered, with the real os.write captured at
import time, i.e. outside any simulation window). If the worker dies or has
to be killed, the parent reads the last marker: a death *inside* a call into
the system is attributable to that operation (a violation, once it repeats);
a death anywhere else is a failure of the machinery (HARNESS-ERROR).
"""

import os

_write = os.write
_FD = None


def attach(fd: int) -> None:
    global _FD
    _FD = fd


def mark(text: str) -> None:
    if _FD is not None:
        _write(_FD, ("WAL %s\n" % text).encode("utf-8", "replace"))


def inside(stdout_text: str):
    """(index, label) of the call the worker was in when its output ended, or None."""
    cur = None
    for l in stdout_text.splitlines():
        if l.startswith("WAL begin "):
            parts = l.split(" ", 3)
            if len(parts) >= 4:
                cur = (parts[2], parts[3])
        elif l.startswith("WAL end "):
            cur = None
    return cur
