"""Oracles over recorded histories of the compiler-process world."""

import hashlib


def _sig_hash(s: str) -> str:
    return hashlib.sha256(s.encode()).hexdigest()[:10]


# ------------------------------------------------------------------------ C09
def c09_violations(plan: dict, result: dict):
    """Totality: every operation ends in an allowed outcome within its step budget."""
    out = []
    for rec in result["history"]:
        op = rec["op"]
        oc = rec.get("outcome", "")
        if op not in ("parse", "parse_string", "lint", "render", "cli") or oc == "skipped":
            continue
        fired = rec.get("fired") or []
        crash_fired = any(f["kind"] == "crash" for f in fired)
        sig = None
        if oc.startswith("internal:"):
            sig = oc
        elif oc == "hang:steps":
            sig = "hang:steps@" + op
        elif oc == "hang:wall":
            sig = "hang:wall@" + op
        elif oc.startswith("crash:"):
            if not crash_fired:
                sig = "HARNESS:crash-without-fault@" + op
        elif crash_fired:
            sig = "swallowed-crash@%s->%s" % (op, oc.split(":")[0])
        elif op in ("parse", "parse_string"):
            if not (oc == "ok" or oc.startswith("parser_error:") or oc.startswith("oserror:")):
                sig = "bad-outcome@%s:%s" % (op, oc)
        elif op == "render":
            if not (oc == "ok" or oc.startswith("renderer_error:") or oc.startswith("oserror:")):
                sig = "bad-outcome@%s:%s" % (op, oc)
        elif op == "lint":
            if oc != "ok":
                sig = "bad-outcome@%s:%s" % (op, oc)
        elif op == "cli":
            if oc == "ok" or oc in ("sysexit:0", "sysexit:2"):
                pass
            elif oc.startswith("exit:"):
                code = oc.split(":", 1)[1]
                if code in ("0", "None"):
                    sig = "cli:exit-%s-from-fatal" % code
                elif rec.get("stderr_len", 0) == 0:
                    sig = "cli:silent-failure"
            else:
                sig = "bad-outcome@%s:%s" % (op, oc)
        if sig:
            out.append({"sig": sig, "op_index": rec["i"], "op": op, "outcome": oc, "msg": rec.get("msg", ""), "tb": rec.get("tb")})
    return out


# ------------------------------------------------------------------------ C18
def history_signature(history, upto: int) -> str:
    """Hash of what preceded op `upto` in its process (since the last restart)."""
    items = []
    for rec in history[:upto]:
        if rec["op"] == "restart" or rec.get("auto_restart"):
            if rec["op"] == "restart":
                items = []
                continue
        kinds = ",".join(sorted(f["kind"] for f in (rec.get("fired") or [])))
        items.append("%s|%s|%s|%s" % (rec["op"], rec.get("key", ""), rec.get("outcome", "").split("@")[0], kinds))
        if rec.get("auto_restart"):
            items = ["<restarted-after:%s>" % items[-1]]
    return _sig_hash("\n".join(items)) if items else ""


def c18_violations(plan: dict, result: dict, goldens: dict):
    """Determinism: every fault-free keyed compile equals the golden for its key."""
    out = []
    compared = []
    hist = result["history"]
    for rec in hist:
        kid = rec.get("key")
        if not kid or kid not in goldens:
            continue
        oc = rec.get("outcome", "")
        if oc == "skipped" or rec.get("fired") or oc.startswith("crash:") or oc.startswith("hang:"):
            continue
        g = goldens[kid]
        if g.get("disagree"):
            continue  # reported separately
        gok = g["outcome"] == "ok"
        sok = oc == "ok"
        sig = None
        detail = ""
        if gok != sok:
            sig = "acceptance-differs:%s" % rec["op"]
            detail = "golden=%s sim=%s" % (g["outcome"], oc)
        elif not gok:
            if rec["op"] in ("parse", "parse_string") and g["outcome"].startswith("parser_error:") and oc.startswith("parser_error:") and g["outcome"] != oc:
                sig = "error-class-differs:%s" % rec["op"]
                detail = "golden=%s sim=%s" % (g["outcome"], oc)
        elif rec["op"] in ("render", "cli"):
            outs = rec.get("outputs") or {}
            for base, s in sorted(g["outputs"].items()):
                if outs.get(base) != s:
                    sig = "output-differs:%s" % base.rsplit(".", 1)[-1]
                    detail = "%s golden=%s sim=%s" % (base, s, outs.get(base))
                    break
        hs = history_signature(hist, rec["i"])
        compared.append((kid, hs))
        if sig:
            out.append({"sig": sig, "op_index": rec["i"], "op": rec["op"], "outcome": oc, "key": kid, "detail": detail, "msg": rec.get("msg", "")})
    return out, compared
