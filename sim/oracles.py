"""Oracles over recorded histories of the compiler-process world."""

import hashlib


def _sig_hash(s: str) -> str:
    return hashlib.sha256(s.encode()).hexdigest()[:10]


def succeeded(oc: str) -> bool:
    """The operation reported success: it returned, or (command line) the process ended with
    status 0 -- however the implementation ends a process (return, sys.exit, os._exit)."""
    return oc in ("ok", "sysexit:0", "sysexit:None", "exit:0")


def reported(oc: str) -> bool:
    """A reported (non-internal) error of the API: one of bitproto's own error classes
    other than InternalError, or an operating-system error."""
    return oc.startswith(("parser_error:", "renderer_error:", "reported_error:", "oserror:"))


# ------------------------------------------------------------------------ C09
def c09_violations(plan: dict, result: dict):
    """Totality: every operation ends in an allowed outcome within its step budget."""
    out = []
    for rec in result["history"]:
        op = rec["op"]
        oc = rec.get("outcome", "")
        if op not in ("parse", "parse_string", "lint", "render", "cli") or oc == "skipped":
            continue
        fired = rec.get("fired") or []
        crash_fired = any(f["kind"] == "crash" for f in fired)
        sig = None
        if oc.startswith("internal:"):
            sig = oc
        elif oc == "hang:steps":
            sig = "hang:steps@" + op
        elif oc == "hang:wall":
            sig = "hang:wall@" + op
        elif oc.startswith("crash:"):
            if not crash_fired:
                sig = "HARNESS:crash-without-fault@" + op
        elif op in ("parse", "parse_string", "render", "lint"):
            # the property forbids internal exceptions, tracebacks and hangs; which of its own
            # error classes the implementation reports with is its business
            if not (oc == "ok" or reported(oc)):
                sig = "bad-outcome@%s:%s" % (op, oc)
        elif op == "cli":
            # a process may end by returning, by sys.exit or by os._exit: status 0 is success
            # (judged by c09_cli_rules), any other status is a reported failure and needs a
            # diagnostic on stderr or stdout
            if succeeded(oc):
                pass
            elif oc == "exit:None":
                sig = "cli:exit-None-from-fatal"  # the real os._exit(None) is a TypeError traceback
            elif oc.startswith(("exit:", "sysexit:")):
                if rec.get("stderr_len", 0) == 0 and rec.get("stdout_len", 0) == 0 and not rec.get("exit_msg_len"):
                    sig = "cli:silent-failure"
                elif rec.get("traceback_printed") and not rec.get("fired"):
                    # "never escapes with an internal exception or traceback": a catch-all that
                    # prints the traceback and exits 1 shows the user exactly that
                    sig = "cli:traceback-printed"
            else:
                sig = "bad-outcome@%s:%s" % (op, oc)
        if sig:
            out.append({"sig": sig, "op_index": rec["i"], "op": op, "outcome": oc, "msg": rec.get("msg", ""), "tb": rec.get("tb")})
    return out


def c09_cli_rules(plan: dict, result: dict):
    """What 'the command line reports success' must mean:
      * a compile invocation (a language, no -c/-h/-v) that ends with status 0 wrote its
        output files (two for C, one otherwise) -- success without output is neither of the
        two outcomes the property allows;
      * if parse() of the very same path, in the same state of the disk, was rejected right
        before, the command line must not report success for it."""
    out = []
    ops = plan["ops"]
    hist = {r["i"]: r for r in result["history"]}
    for i, op in enumerate(ops):
        rec = hist.get(i)
        if rec is None or op["op"] != "cli" or not succeeded(rec.get("outcome", "")) or any(f["kind"] == "crash" for f in rec.get("fired") or []):
            continue
        faulted = bool(rec.get("fired"))
        argv = list(op.get("argv") or [])
        if not argv or argv[0] not in ("c", "go", "py") or any(a in argv for a in ("-c", "--check", "-h", "--help", "-v", "--version")):
            continue
        need = 2 if argv[0] == "c" else 1
        # judged on what IS there afterwards, not on what was written: an implementation that
        # leaves an up-to-date file untouched is fine (no assumption about file names either)
        have = len(rec.get("outputs") or {}) if "outputs" in rec else None
        if have is not None and have < need and len(rec.get("wrote") or []) < need:
            out.append({"sig": "cli:success-without-output", "op_index": i, "op": "cli", "outcome": rec["outcome"], "msg": "exit status 0 for %r but the output directory holds %d generated file(s) and %d were written" % (argv, have, len(rec.get("wrote") or []))})
            continue
        pair = op.get("paired_parse")
        if pair is not None and pair in hist:
            pr = hist[pair]
            if pr.get("outcome", "").startswith("parser_error:") and not pr.get("fired") and not faulted:
                out.append({"sig": "cli:success-for-rejected-schema", "op_index": i, "op": "cli", "outcome": rec["outcome"], "msg": "parse() of the same path was rejected (%s) but the command line exited 0" % pr["outcome"]})
    return out


def c09_silent_failures(res0: dict, res1: dict):
    """Reported success must mean the output is there. An operation of the
    faulted pass in which a write-side fault fired and which nevertheless ended
    'ok' must have produced, for every file the same operation wrote in the
    fault-free pass, the same bytes (a retry that really succeeds is fine; a
    swallowed error that leaves the file missing or torn is not)."""
    out = []
    by_i = {r["i"]: r for r in res0["history"]}
    for rec in res1["history"]:
        if rec["op"] not in ("render", "cli") or not succeeded(rec.get("outcome", "")):
            continue
        # write-side faults (incl. the rename that moves a temporary file into place and fsync),
        # and read-side faults on schema sources: an unreadable source must be reported, it can
        # never legitimately lead to a *successful* compile with other bytes
        fired = [
            f
            for f in (rec.get("fired") or [])
            if f["kind"] != "crash" and (f["seam"] in ("open_w", "write", "close_w", "rename", "fsync") or (f["seam"] in ("open_r", "read") and (f.get("path") or "").endswith(".bitproto")))
        ]
        if not fired:
            continue
        r0 = by_i.get(rec["i"])
        if r0 is None or not succeeded(r0.get("outcome", "")):
            continue
        o0, o1 = r0.get("outputs") or {}, rec.get("outputs") or {}
        # (what the fault-free twin left under a name it wrote or renamed into place; temporary
        # names that are gone afterwards are not in o0 and so not compared)
        for base in r0.get("wrote") or []:
            if base in o0 and o1.get(base) != o0[base]:
                out.append(
                    {
                        "sig": "silent-failure@%s:%s" % (rec["op"], fired[0]["kind"]),
                        "op_index": rec["i"],
                        "op": rec["op"],
                        "outcome": "ok",
                        "msg": "%s fired at %s but the operation reported success; %s is %s" % (fired[0]["kind"], fired[0]["seam"], base, "missing" if base not in o1 else "different from the fault-free result"),
                        "expect": {base: o0[base]},
                    }
                )
                break
    return out


# ------------------------------------------------------------------------ C18
def history_signature(history, upto: int) -> str:
    """Hash of what preceded op `upto` in its process (since the last restart)."""
    items = []
    for rec in history[:upto]:
        if rec["op"] == "restart" or rec.get("auto_restart"):
            if rec["op"] == "restart":
                items = []
                continue
        kinds = ",".join(sorted(f["kind"] for f in (rec.get("fired") or [])))
        items.append("%s|%s|%s|%s" % (rec["op"], rec.get("key", ""), rec.get("outcome", "").split("@")[0], kinds))
        if rec.get("auto_restart"):
            items = ["<restarted-after:%s>" % items[-1]]
    return _sig_hash("\n".join(items)) if items else ""


def c18_violations(plan: dict, result: dict, goldens: dict):
    """Determinism: every fault-free keyed compile equals the golden for its key."""
    out = []
    compared = []
    hist = result["history"]
    for rec in hist:
        kid = rec.get("key")
        if not kid or kid not in goldens:
            continue
        oc = rec.get("outcome", "")
        if oc == "skipped" or rec.get("fired") or oc.startswith("crash:") or oc.startswith("hang:"):
            continue
        g = goldens[kid]
        if g.get("disagree"):
            continue  # reported separately
        if g.get("resource_limit") or rec.get("resource_limit"):
            # Whether an input close to the interpreter's recursion limit is still accepted
            # depends on how deep the caller's own stack already is (the simulator's frames, a
            # command line, an embedding): like running out of memory it is a limit of the
            # environment, not one of the factors the property lists. Not compared.
            continue
        gok = succeeded(g["outcome"])
        sok = succeeded(oc)
        sig = None
        detail = ""
        if gok != sok:
            sig = "acceptance-differs:%s" % rec["op"]
            detail = "golden=%s sim=%s" % (g["outcome"], oc)
        elif not gok:
            if rec["op"] in ("parse", "parse_string") and g["outcome"].startswith("parser_error:") and oc.startswith("parser_error:") and g["outcome"] != oc:
                sig = "error-class-differs:%s" % rec["op"]
                detail = "golden=%s sim=%s" % (g["outcome"], oc)
        elif rec["op"] in ("render", "cli"):
            outs = rec.get("outputs") or {}
            for base, s in sorted(g["outputs"].items()):
                if outs.get(base) != s:
                    sig = "output-differs:%s" % base.rsplit(".", 1)[-1]
                    detail = "%s golden=%s sim=%s" % (base, s, outs.get(base))
                    break
        hs = history_signature(hist, rec["i"])
        compared.append((kid, hs))
        if sig:
            out.append({"sig": sig, "op_index": rec["i"], "op": rec["op"], "outcome": oc, "key": kid, "detail": detail, "msg": rec.get("msg", "")})
    return out, compared
