"""Driver for the fleet-world check (C05)."""

import copy
import hashlib
import json
import re
import os
import time

from . import fleetgen, refmodel, runner, schemagen as sg
from .minimise import Budget, ddmin
from .schemajson import schema_from_json, schema_to_json

VERIF = runner.VERIF
REPLAYS = os.environ.get("VERIF_REPLAY_DIR") or os.path.join(VERIF, "replays")


def new_context(prop, tier="quick"):
    return {"scale": 2 if tier == "thorough" else 1}


def sig_class(sig: str) -> str:
    return sig


STATS = {"worker_retries": 0}


def run_plan_checked(plan):
    """A fleet worker that dies or has to be killed is re-run. Only if it ends the same way again
    inside the same decode of a version-skewed delivery (write-ahead markers) is that a C05
    violation (e.g. SIGKILL-level damage or an endless loop in a Python decoder; C faults and C
    endless loops are caught in-process by the guarded call). Anything else is HARNESS-ERROR."""
    r = runner.run_plan(plan, timeout=240)
    if r["status"] == "ok":
        return r["result"]
    STATS["worker_retries"] += 1
    r2 = runner.run_plan(plan, timeout=480)
    if r2["status"] == "ok":
        return r2["result"]  # e.g. killed under memory pressure: the re-run is the execution
    ins = r2.get("inside")
    if ins and ins == r.get("inside") and r2["status"] == r["status"] and ins[1].startswith("decode "):
        label = ins[1]
        rt = label.split(" ")[1]
        m = re.search(r"v(\d+)<-v(\d+)", label)
        rv, sv = (int(m.group(1)), int(m.group(2))) if m else (0, 0)
        if sv > rv:
            what = "hang:hard" if r2["status"] == "timeout" else "process-died:rc=%s" % r2.get("rc")
            viol = {"sig": "%s-%s@decode" % (rt, what), "detail": (r2.get("stderr") or "")[-400:], "s": sv, "r": rv, "runtime": rt, "src_runtime": "?", "t": -1, "hops": 0, "delivery": int(ins[0]), "worker_died": True}
            return {"violations": [viol], "stats": {}, "probes": {}, "cases": 0, "nontrivial_cases": [], "log_digest_input": [], "sim_time_ms": 0, "versions": len(plan["lineage"]), "bits": []}
    raise runner.HarnessFailure("fleet worker %s twice (inside %r / %r): %s" % (r2["status"], r.get("inside"), ins, (r2.get("stderr") or "")[-1500:]))


def run_seed(prop, seed, ctx):
    t0 = time.monotonic()
    plan = fleetgen.gen_plan(seed, (ctx or {}).get("scale", 1))
    res = run_plan_checked(plan)
    vs = []
    seen = set()
    for v in res["violations"]:
        if v["sig"] in seen:
            continue
        seen.add(v["sig"])
        w = dict(v)
        w["plan"] = plan
        w["phase"] = "fleet"
        w["op"] = "deliver"
        w["op_index"] = v["delivery"]
        vs.append(w)
    summary = {k: res[k] for k in ("stats", "probes", "cases", "sim_time_ms", "versions", "bits")}
    summary["nontrivial"] = res["nontrivial_cases"]
    summary["lineage_hash"] = hashlib.sha256(json.dumps(plan["lineage"], sort_keys=True).encode()).hexdigest()[:12]
    summary["steps"] = plan["steps"]
    dig = runner.digest({"log": res["log_digest_input"], "violations": res["violations"], "stats": res["stats"]})
    return {"seed": seed, "violations": vs, "execs": [{"phase": "fleet", "res": summary, "digest": dig}], "wall_s": time.monotonic() - t0}


# ---------------------------------------------------------------- minimising
def has_sig(plan, sig):
    try:
        res = run_plan_checked(plan)
    except runner.HarnessFailure:
        return False, None
    for v in res["violations"]:
        if v["sig"] == sig:
            return True, v
    return False, None


def two_node_plan(v):
    """Smallest deployment showing the same delivery: one producer on S_s, one receiver on S_r."""
    plan = v["plan"]
    s, r = v["s"], v["r"]
    lineage = [plan["lineage"][r], plan["lineage"][s]]
    src_rt = v.get("src_runtime", "ref")
    nodes = [
        {"id": 0, "runtime": src_rt, "role": "producer", "version": 1},
        {"id": 1, "runtime": v["runtime"], "role": "sink", "version": 0},
    ]
    events = [{"t": 1, "type": "tick", "node": 0, "value": v["value"], "dst": [1], "lat": [1], "relay_lat": [1]}]
    out = {"world": "fleet", "seed": plan.get("seed"), "hashseed": plan.get("hashseed", 1), "lineage": lineage, "steps": [], "nodes": nodes, "events": events}
    if plan.get("split"):
        out["split"] = plan["split"]
    return out


def reachable_defs(s):
    root = s.find("Packet")
    keep = set()

    def rec(t):
        if t.kind in ("message", "enum", "alias"):
            if id(t) in keep:
                return
            keep.add(id(t))
            p = t.parent
            while p is not None:
                keep.add(id(p))
                p = p.parent
        if t.kind == "message":
            for f in t.fields:
                rec(f.type)
        elif t.kind == "array":
            rec(t.elem)
        elif t.kind == "alias":
            rec(t.target)

    rec(root)
    return keep


def prune_unreachable(s):
    keep = reachable_defs(s)

    def prune(m):
        m.nested = [n for n in m.nested if id(n) in keep]
        for n in m.nested:
            if n.kind == "message":
                prune(n)

    s.defs = [d for d in s.defs if id(d) in keep]
    for d in s.defs:
        if d.kind == "message":
            prune(d)


def message_by_path(s, path):
    cur = None
    for name in path:
        pool = s.defs if cur is None else cur.nested
        cur = next((d for d in pool if getattr(d, "name", None) == name), None)
        if cur is None:
            return None
    return cur


def shrink_schemas(plan, sig, budget: Budget):
    """Greedy structural shrinking of a two-version plan: drop fields, shrink
    arrays, simplify values -- in both versions consistently."""
    if len(plan["lineage"]) != 2:
        return plan

    def load(p):
        return [schema_from_json(j) for j in p["lineage"]]

    def store(p, versions, value):
        q = copy.deepcopy(p)
        q["lineage"] = [schema_to_json(v) for v in versions]
        q["events"][0]["value"] = value
        return q

    def attempt(mutator):
        nonlocal plan
        if not budget.ok():
            return False
        old_versions = load(plan)
        versions = load(plan)
        try:
            if not mutator(versions):
                return False
            for v in versions:
                prune_unreachable(v)
            old_root = old_versions[1].find("Packet")
            new_root = versions[1].find("Packet")
            value = refmodel.restrict(plan["events"][0]["value"], old_root, new_root)
            # the pair must still be a permitted evolution
            refmodel.restrict(value, new_root, versions[0].find("Packet"))
        except (ValueError, KeyError, IndexError, AttributeError):
            return False
        cand = store(plan, versions, value)
        budget.tick()
        ok, _ = has_sig(cand, sig)
        if ok:
            plan = cand
            return True
        return False

    progress = True
    rounds = 0
    while progress and budget.ok() and rounds < 6:
        progress = False
        rounds += 1
        vs = load(plan)
        # candidate fields: every (message path, field num) of the newer version
        cands = []
        for m in vs[1].all_messages():
            for f in m.fields:
                cands.append((tuple(m.path()), f.num))
        for path, num in cands:

            def drop(versions, path=path, num=num):
                hit = False
                for v in versions:
                    m = message_by_path(v, path)
                    if m is not None and any(f.num == num for f in m.fields) and len(m.fields) > 0:
                        m.fields = [f for f in m.fields if f.num != num]
                        hit = True
                return hit

            if attempt(drop):
                progress = True
        # shrink arrays
        vs = load(plan)
        arrs = []
        for m in vs[1].all_messages():
            for f in m.fields:
                t = f.type
                if t.kind == "array" and t.cap > 1:
                    arrs.append((tuple(m.path()), f.num))
        for path, num in arrs:

            def halve(versions, path=path, num=num):
                caps = []
                for v in versions:
                    m = message_by_path(v, path)
                    f = next((f for f in (m.fields if m else []) if f.num == num), None)
                    caps.append(f.type if f is not None and f.type.kind == "array" else None)
                if caps[1] is None:
                    return False
                delta = caps[1].cap - (caps[0].cap if caps[0] is not None else caps[1].cap)
                base = caps[0].cap if caps[0] is not None else caps[1].cap
                nb = max(1, base // 2)
                if nb == base:
                    return False
                if caps[0] is not None:
                    caps[0].cap = nb
                caps[1].cap = nb + delta if caps[0] is not None else nb
                return True

            if attempt(halve):
                progress = True
        # aliases' arrays
        for d in vs[1].defs:
            if d.kind == "alias" and d.target.kind == "array" and d.target.cap > 1:

                def halve_alias(versions, name=d.name):
                    ts = [v.find(name) for v in versions]
                    if ts[1] is None:
                        return False
                    base = ts[0].target.cap if ts[0] is not None else ts[1].target.cap
                    delta = ts[1].target.cap - base
                    nb = max(1, base // 2)
                    if nb == base:
                        return False
                    if ts[0] is not None:
                        ts[0].target.cap = nb
                    ts[1].target.cap = nb + delta
                    return True

                if attempt(halve_alias):
                    progress = True
    # simplify the value: all-zero, then all-ones, if the violation persists
    for style in ("zero", "ones"):
        if not budget.ok():
            break
        vs = load(plan)
        from .prng import Rng

        val = refmodel.gen_value(Rng(0), vs[1].find("Packet"), style)
        cand = copy.deepcopy(plan)
        cand["events"][0]["value"] = val
        budget.tick()
        ok, _ = has_sig(cand, sig)
        if ok:
            plan = cand
            break
    return plan


def minimise(prop, v, max_seconds=120.0):
    sig = v["sig"]
    budget = Budget(max_calls=300, max_seconds=max_seconds)
    plan = copy.deepcopy(v["plan"])
    out = dict(v)
    if v.get("worker_died"):
        out["minimise_calls"] = 0
        return out
    if v.get("value") is not None:
        cand = two_node_plan(v)
        budget.tick()
        ok, w = has_sig(cand, sig)
        if ok:
            plan = shrink_schemas(cand, sig, budget)
            ok2, w2 = has_sig(plan, sig)
            if ok2:
                out.update({"s": w2["s"], "r": w2["r"], "detail": w2["detail"], "op_index": w2["delivery"]})
            out["plan"] = plan
            out["minimise_calls"] = budget.calls
            return out
    events = ddmin(plan["events"], lambda ev: has_sig(dict(plan, events=ev), sig)[0], budget)
    plan["events"] = events
    out["plan"] = plan
    out["minimise_calls"] = budget.calls
    return out


def write_replay(prop, v, minimised):
    os.makedirs(REPLAYS, exist_ok=True)
    plan = v["plan"]
    hid = hashlib.sha256((v["sig"] + json.dumps(plan, sort_keys=True)).encode()).hexdigest()[:8]
    path = os.path.join(REPLAYS, "%s-%s-%s%s.json" % (prop, plan.get("seed", "x"), hid, "" if minimised else "-full"))
    texts = []
    try:
        texts = [schema_from_json(j).text() for j in plan["lineage"]]
    except Exception:
        pass
    doc = {
        "property": prop,
        "world": "fleet",
        "signature": v["sig"],
        "detail": v.get("detail"),
        "sender_version": v.get("s"),
        "receiver_version": v.get("r"),
        "receiver_runtime": v.get("runtime"),
        "minimised": minimised,
        "schema_texts": texts,
        "plan": plan,
    }
    with open(path, "w") as f:
        json.dump(doc, f, indent=1, sort_keys=True)
    return path


def replay(prop, path):
    with open(path) as f:
        doc = json.load(f)
    res = run_plan_checked(doc["plan"])
    sigs = sorted({v["sig"] for v in res["violations"]})
    return doc["signature"] in sigs, doc["signature"], sigs


def selftest(prop, tier, seeds, jobs):
    """Reference-model self-test: restrict/ref_encode agree with a hand-computed case."""
    m = sg.Message("Packet", True)
    m.fields = [sg.Field(2, "x_b", sg.Uint(7)), sg.Field(1, "x_a", sg.Array(sg.Uint(1), 10, True))]
    v = {"1": [1, 0, 1, 0, 0, 0, 0, 0, 0, 1], "2": 0x55}
    want_bits = 16 + 16 + 10 + 7
    assert sg.nbits(m) == want_bits
    b = refmodel.ref_encode(m, v)
    # size prefix 49, capacity prefix 10, elements, then 0x55
    exp = 49 | (10 << 16) | (0b1000000101 << 32) | (0x55 << 42)
    if int.from_bytes(b, "little") != exp or len(b) != 7:
        raise runner.HarnessFailure("reference model self-test failed")
    return {"refmodel_selftest": "ok"}


def evidence(prop, tier, base_seed, done, selftest_info, wall, t_runs, nviol, known_sigs, jobs):
    tot = {}
    probes = {}
    by_rt = {}
    by_tc = {}
    nontrivial = set()
    cases = 0
    sim_ms = 0
    versions = {}
    step_kinds = {"append": 0, "grow": 0}
    maxdepth = 0
    for r in done:
        s = r["execs"][0]["res"]
        for k, v in s["stats"].items():
            if k == "by_runtime":
                for a, b in v.items():
                    by_rt[a] = by_rt.get(a, 0) + b
            elif k == "by_toolchain":
                for a, b in v.items():
                    by_tc[a] = by_tc.get(a, 0) + b
            else:
                tot[k] = tot.get(k, 0) + v
        for k, v in s["probes"].items():
            probes[k] = probes.get(k, 0) + v
        for c in s["nontrivial"]:
            nontrivial.add(s["lineage_hash"] + "/" + c)
        cases += s["cases"]
        sim_ms += s["sim_time_ms"]
        versions[s["versions"]] = versions.get(s["versions"], 0) + 1
        for st in s["steps"]:
            for a in st:
                step_kinds[a["step"]] = step_kinds.get(a["step"], 0) + 1
                maxdepth = max(maxdepth, a.get("depth", 0))
    samples = []
    for r in done[:2]:
        plan = fleetgen.gen_plan(r["seed"], 2 if tier == "thorough" else 1)
        samples.append(
            {
                "seed": r["seed"],
                "schema_v1": schema_from_json(plan["lineage"][0]).text()[:700],
                "evolution_steps": plan["steps"],
                "nodes": plan["nodes"],
                "first_events": [{k: (v if k != "value" else "<value of newest version>") for k, v in e.items()} for e in plan["events"][:6]],
            }
        )
    if tot.get("encoder_vs_reference_mismatch") or tot.get("control_failures"):
        # outside the C05 verdict (an encoder or same-version defect is another property's), but
        # never silent: either the tree's encoder/decoder is broken or the reference model is
        print("NOTE: property=%s reference cross-checks are not clean: encoder_vs_reference_mismatch=%d control_failures(same-version deliveries)=%d" % (prop, tot.get("encoder_vs_reference_mismatch", 0), tot.get("control_failures", 0)))
    cov = {
        "evaluations": tot.get("deliveries", 0),
        "distinct_nontrivial": len(nontrivial),
        "rule": "seeded fleets: a lineage S1..Sk built only from the two permitted extension steps, 3-6 nodes (Python / C runtimes, producers, relays, sinks, plus a reference-encoder producer), rolling upgrades and rollbacks, messages overtaking each other; every delivery with receiver version <= sender version is decoded by the real generated code and compared with restrict(value); non-trivial = sender version > receiver version AND at least one receiver field/element lies after a region that grew; distinct = distinct (lineage, s, r, receiver runtime, value)",
        "samples": samples,
        "runs": len(done),
        "seeds": [r["seed"] for r in done[:50]],
        "runs_per_hour": int(len(done) / max(t_runs, 1e-6) * 3600),
        "jobs": jobs,
        "sim_time_ms": sim_ms,
        "deliveries": tot,
        "deliveries_by_runtime_pair": by_rt,
        "fleets_by_c_toolchain": dict(sorted(by_tc.items())),
        "cross_version_cases": cases,
        "lineage_lengths": versions,
        "evolution_steps": step_kinds,
        "max_growth_depth": maxdepth,
        "probes": probes,
        "faults_injected": {"version_skew(upgrade)": tot.get("upgrades", 0), "version_skew(rollback)": tot.get("rollbacks", 0), "reordering(delivery crossed an upgrade)": tot.get("delivery_crossed_upgrade", 0), "loss/duplication/corruption": "not injected: stateless codecs, no transport layer in bitproto"},
        "selftest": selftest_info,
        "known_findings_seen": known_sigs,
        "components": {
            "real": ["bitproto compiler (py + c renderers) from /repo", "generated Python + lib/py runtime", "generated C + lib/c runtime (per fleet: gcc 12 or clang 14 at -O0/-O1/-O2/-O3/-Os; ctypes)"],
            "stub": ["transport (discrete-event queue)", "virtual clock", "reference producer (independent reference encoder)", "C struct accessors generated from the harness's schema model"],
            "not_executed": ["Go runtime (no toolchain): the same formula was repaired by inspection only"],
        },
    }
    return {
        "property_id": prop,
        "tier": tier,
        "seed": base_seed,
        "level": "exploration",
        "coverage": cov,
        "assumptions": [
            "the reference model (refmodel.py) states the wire format of docs/language.rst; it is cross-checked against the real encoders on every tick (encoder_vs_reference_mismatch) and on every same-version delivery (control_failures)",
            "generated schemas avoid constructs whose misbehaviour belongs to other properties (enums wider than 8 bits or sparse, message names ending in digits)",
            "Go is not executed",
        ],
        "wall_s": round(wall, 2),
        "violations": nviol,
    }
