"""Seeded generator for the fleet world (C05): schema lineages built only from
the two permitted extension steps, node topologies, upgrade histories,
traffic."""

from . import refmodel, schemagen as sg
from .prng import Rng
from .schemajson import schema_to_json

MAX_BITS = 40000


# ------------------------------------------------------------------ helpers
def top_ancestor(d):
    while d.parent is not None:
        d = d.parent
    return d


def reachable_types(root):
    """All Message / Array / Alias / Enum objects on the wire of `root`, with depth."""
    out = []
    seen = set()

    def rec(t, depth):
        if t.kind == "message":
            out.append((t, depth))
            if id(t) in seen:
                return
            seen.add(id(t))
            for f in t.fields:
                rec(f.type, depth + 1)
        elif t.kind == "array":
            out.append((t, depth))
            rec(t.elem, depth + 1)
        elif t.kind == "alias":
            rec(t.target, depth)
        elif t.kind == "enum":
            pass

    rec(root, 0)
    return out


def fits(s) -> bool:
    return all(sg.nbits(m) <= MAX_BITS for m in s.all_messages())


class Evolver:
    def __init__(self, rng, cfg, schema):
        self.rng = rng
        self.cfg = cfg
        self.s = schema
        self.g = sg.Generator(rng.sub("g"), cfg)
        self.g.s = schema

    def pool_for(self, m):
        """Named types a new field of message m may reference."""
        top = top_ancestor(m)
        out = []
        for d in self.s.defs:
            if d is top:
                break
            if d.kind in ("enum", "alias", "message"):
                out.append(d)
        # own nested definitions (declared before the fields), then in each enclosing
        # scope only the siblings declared before the enclosing definition: anything
        # else would be a forward or cyclic reference
        out.extend(m.nested)
        cur = m
        while cur.parent is not None:
            sibs = cur.parent.nested
            out.extend(sibs[: sibs.index(cur)])
            cur = cur.parent
        return out

    def new_field_type(self, m):
        r = self.rng
        pool = self.pool_for(m)
        k = r.weighted([("scalar", 5), ("array", 4), ("ref", 4 if pool else 0), ("newmsg", 3), ("newenum", 1), ("newmatrix", 2)])
        if k == "newmatrix":
            # multi-dimensional array the documented way: an alias of an array used as element
            row = sg.Alias(self.s.fresh("Als"), sg.Array(self.g.scalar(), r.randint(1, 4), r.chance(0.7)))
            self.place(row, m)
            return sg.Array(row, r.randint(1, 4), r.chance(0.7))
        if k == "scalar":
            return self.g.scalar()
        if k == "ref":
            return r.choice(pool)
        if k == "newenum":
            e = self.g.new_enum(parent=m if r.chance(0.5) else None)
            self.place(e, m)
            return e
        if k == "newmsg":
            nm = sg.Message(self.s.fresh("Msg"), r.chance(0.7))
            nested = r.chance(0.5)
            nm.parent = m if nested else None
            for i in range(r.randint(1, 3) if r.chance(0.85) else 0):  # sometimes a reserved, still empty message
                nm.fields.append(sg.Field(i + 1 + r.below(3) * 10, "x_" + sg.letters(i), self.g.scalar() if r.chance(0.7) else sg.Array(self.g.scalar(), r.randint(1, 4), r.chance(0.6))))
            # field numbers must be unique
            seen = set()
            for f in nm.fields:
                while f.num in seen:
                    f.num += 1
                seen.add(f.num)
            self.place(nm, m)
            if r.chance(0.4):
                return sg.Array(nm, r.randint(1, 3), r.chance(0.7))
            return nm
        # array
        elem_pool = [t for t in pool if t.kind in ("enum", "message", "alias")]
        elem = r.choice(elem_pool) if elem_pool and r.chance(0.5) else self.g.scalar()
        return sg.Array(elem, r.randint(1, self.cfg.max_cap), r.chance(0.6))

    def place(self, d, m):
        """Declare new definition d before its first use in m."""
        if d.parent is not None:
            d.parent.nested.append(d)
        else:
            top = top_ancestor(m)
            self.s.defs.insert(self.s.defs.index(top), d)

    def append_fields(self, m):
        r = self.rng
        top = max([f.num for f in m.fields], default=0)
        added = 0
        for _ in range(r.randint(1, 3)):
            if top >= 255:
                break
            top = top + r.randint(1, min(4, 255 - top))
            names = {f.name for f in m.fields}
            idx = len(m.fields)
            nm = "x_" + sg.letters(idx)
            while nm in names:
                idx += 1
                nm = "x_" + sg.letters(idx)
            f = sg.Field(top, nm, self.new_field_type(m))
            m.fields.insert(r.below(len(m.fields) + 1), f)  # declaration order is free
            added += 1
        return added

    def step(self):
        """One evolution step: 1..3 permitted actions. Returns a description list."""
        r = self.rng
        root = self.s.find("Packet")
        done = []
        for _ in range(r.randint(1, 3)):
            reach = reachable_types(root)
            ext_msgs, ext_arrs = [], []
            seen = set()
            for t, depth in reach:
                if id(t) in seen:
                    continue
                seen.add(id(t))
                if t.kind == "message" and t.ext:
                    ext_msgs.append((t, depth))
                if t.kind == "array" and t.ext:
                    ext_arrs.append((t, depth))
            # sometimes evolve something that is not on Packet's wire at all
            if r.chance(0.1):
                others = [m for m in self.s.all_messages() if m.ext and id(m) not in seen]
                if others:
                    ext_msgs.append((r.choice(others), -1))
            choices = []
            if ext_msgs:
                choices.append(("msg", 5))
            if ext_arrs:
                choices.append(("arr", 5))
            if not choices:
                break
            k = r.weighted(choices)
            if k == "msg":
                # bias towards deep and towards non-last positions
                m, depth = r.choice(sorted(ext_msgs, key=lambda x: -x[1])[: max(1, len(ext_msgs) // 2 + 1)]) if r.chance(0.5) else r.choice(ext_msgs)
                reserved = [x for x in ext_msgs if not x[0].fields]
                if reserved and r.chance(0.6):
                    m, depth = r.choice(reserved)  # a reserved (still empty) message gets its first fields
                target = m
                if self.grow_message(m, depth, done):
                    pass
            else:
                a, depth = r.choice(ext_arrs)
                target = a
                self.grow_array(a, depth, done)
            # compound growth: also extend something *inside* what was just extended
            # (extended elements of a grown array, grown arrays inside an extended message, ...)
            if r.chance(0.6):
                sub = target if target.kind == "message" else target.elem
                inner = []
                seen2 = set()
                for t, d in reachable_types(sub) if sub.kind in ("message", "array", "alias") else []:
                    if t is target or id(t) in seen2:
                        continue
                    seen2.add(id(t))
                    if t.kind in ("message", "array") and t.ext:
                        inner.append((t, d))
                if inner:
                    t, d = r.choice(inner)
                    if t.kind == "message":
                        self.grow_message(t, d + 1, done)
                    else:
                        self.grow_array(t, d + 1, done)
        return done

    def grow_message(self, m, depth, done):
        before = (list(m.fields), list(m.nested), list(self.s.defs))
        n = self.append_fields(m)
        if not fits(self.s):
            m.fields, m.nested, self.s.defs = before
            return False
        done.append({"step": "append", "message": ".".join(m.path()), "fields": n, "depth": depth})
        return True

    def grow_array(self, a, depth, done):
        r = self.rng
        old = a.cap
        a.cap = min(65535, old + r.choice([1, 1, 2, 3, old, old * 2 + 1, 7]))
        if not fits(self.s):
            a.cap = old
            return False
        done.append({"step": "grow", "from": old, "to": a.cap, "depth": depth})
        return True


def gen_huge_lineage(rng):
    """Boundary fleets: sizes and capacities close to the 16-bit limits of the
    prefix (message size <= 65535 bits, capacity <= 65535), where integer
    widths and signedness of the skip arithmetic matter."""
    r = rng
    s = sg.Schema("pkt")
    elem = r.choice([sg.Bool(), sg.Uint(1), sg.Uint(2), sg.Int(3), sg.Byte()])
    overflow = r.chance(0.3)
    if overflow:
        # products of announced capacity and consumed bits around and beyond 2**31
        elem = r.choice([sg.Bool(), sg.Uint(1)])
    eb = sg.nbits(elem)
    # (capacities beyond 32768 with 1-bit elements make sender_capacity * consumed_bits exceed 2**31)
    cap1 = r.choice([255, 256, 4095, 4096, 8191, 16383, 16384, 20000, 32767, 32768, 33000, 36000, 40000, 44000, 48000, 52000, 56000, 60000]) // eb
    cap1 = max(1, cap1)
    if overflow:
        cap1 = r.choice([32768, 32777, 33000, 36000, 40000, 46341, 48000, 52000, 56000, 60000])
    inner = sg.Message("Msga", True)
    inner.fields = [sg.Field(1, "x_a", sg.Uint(r.choice([1, 3, 7]))), sg.Field(2, "x_b", sg.Array(elem, cap1, True)), sg.Field(3, "x_c", sg.Int(r.choice([5, 13, 33])))]
    root = sg.Message("Packet", r.chance(0.5))
    root.fields = [sg.Field(1, "x_a", sg.Uint(r.choice([1, 2, 5, 8]))), sg.Field(2, "x_b", inner), sg.Field(7, "x_c", sg.Uint(r.choice([7, 16, 31]))), sg.Field(9, "x_d", sg.Array(sg.Int(9), 2, True))]
    s.defs = [inner, root]
    s.counter = 10
    versions = [s]
    steps = []
    cur = s
    for v in range(r.randint(1, 2)):
        nxt = cur.clone()
        m = nxt.find("Msga")
        arr = m.fields[1].type
        room = (65535 - 16 - sg.nbits(nxt.find("Packet"))) // eb
        if room < 1:
            break
        old = arr.cap
        grow = r.choice([1, room // 2, room - 1, room, room]) if room > 2 else 1
        if overflow and room > 2:
            grow = r.choice([room, room - 1, room // 2])
        arr.cap = min(65535, old + max(1, grow))
        d = [{"step": "grow", "from": old, "to": arr.cap, "depth": 2}]
        if r.chance(0.5) and sg.nbits(nxt.find("Packet")) < 65000:
            top = max(f.num for f in m.fields)
            m.fields.append(sg.Field(top + 1, "x_" + sg.letters(len(m.fields)), sg.Uint(r.choice([1, 8, 17]))))
            d.append({"step": "append", "message": "Msga", "fields": 1, "depth": 1})
        if not all(sg.nbits(mm) <= 65535 for mm in nxt.all_messages()):
            break
        versions.append(nxt)
        steps.append(d)
        cur = nxt
    return versions, steps


def _pad_to(m, start_num, bits, rng):
    """Append padding fields to message m so that it grows by exactly `bits` bits."""
    num = start_num
    k = 0
    while bits > 0:
        if bits >= 64 and rng.chance(0.5):
            n = min(bits // 8, 8000)
            t = sg.Array(sg.Byte(), n, False)
            used = n * 8
        else:
            w = min(bits, rng.choice([1, 3, 7, 8, 13, 16, 31, 32, 33, 57, 64]))
            t = sg.Uint(w) if rng.chance(0.6) else sg.Int(w)
            used = w
        m.fields.append(sg.Field(num, "p_" + sg.letters(k) + sg.letters(num), t))
        num += 1
        k += 1
        bits -= used
    return num


def gen_boundary_lineage(rng):
    """Targeted numeric coincidences: announced sizes / capacities exactly at
    and around powers of two, every prefix bit offset, skip distances that are
    (not) multiples of 8 and 32, and 'interesting' followers (64-bit integers
    at odd offsets, batch-copied integer arrays, bool arrays, enums, aliases)
    right behind the extended region."""
    r = rng
    s = sg.Schema("pkt")
    s.counter = 50
    off = r.randint(0, 7)
    target = r.choice([255, 256, 257, 511, 512, 513, 1023, 1024, 1025, 2047, 2048, 4095, 4096, 8191, 8192, 16383, 16384, 32767, 32768, 32769])
    target += r.choice([0, 0, 0, -1, 1, -8, 8])
    enum = sg.Enum("Enma", 3, [("ENMA_%s" % sg.letters(i).upper(), v) for i, v in enumerate([0, 5, 1, 2, 7, 3, 4, 6])])
    alias = sg.Alias("Alsb", sg.Int(r.choice([7, 24, 33, 64])))
    row = sg.Alias("Alsc", sg.Array(sg.Uint(r.choice([3, 8, 16])), r.randint(1, 3), r.chance(0.5)))
    follower = r.choice(
        [
            lambda: sg.Int(64),
            lambda: sg.Uint(r.choice([57, 59, 63, 64])),
            lambda: sg.Int(r.choice([2, 9, 31, 33])),
            lambda: sg.Array(sg.Bool(), r.choice([1, 5, 9]), r.chance(0.3)),
            lambda: sg.Array(sg.Int(r.choice([8, 16, 32, 64])), r.randint(1, 4), r.chance(0.3)),
            lambda: sg.Array(sg.Uint(r.choice([8, 16, 32, 64])), r.randint(1, 4), r.chance(0.3)),
            lambda: enum,
            lambda: alias,
            lambda: sg.Array(row, r.randint(1, 3), r.chance(0.5)),
            lambda: sg.Array(enum, r.randint(1, 4), False),
            lambda: sg.Bool(),
            lambda: sg.Byte(),
        ]
    )()
    grow_bits = r.choice([1, 7, 8, 9, 15, 16, 17, 31, 32, 33, 64, 128])
    kind = r.choice(["msg_s2", "msg_s1", "arr_s2", "arr_s1", "elem"])
    root1 = sg.Message("Packet", r.chance(0.5))
    head = []
    if off:
        head.append(sg.Field(1, "x_head", sg.Uint(off)))
    versions = []
    if kind.startswith("msg") or kind == "elem":
        # an extensible message whose announced size hits `target` in S1 or in S2
        inner1 = sg.Message("Msga", True)
        size1 = (target - grow_bits) if kind == "msg_s2" else target
        size1 = max(17, min(size1, 60000))
        nxt = _pad_to(inner1, 1, size1 - 16, r)
        holder_t = inner1
        if kind == "elem":
            holder_t = sg.Array(inner1, r.randint(2, 3), r.chance(0.5))
        root1.fields = head + [sg.Field(2, "x_ext", holder_t), sg.Field(3, "x_follow", follower), sg.Field(4, "x_tail", sg.Uint(r.choice([1, 8, 13])))]
        s.defs = [enum, alias, row, inner1, root1]
        versions.append(s)
        s2 = s.clone()
        _pad_to(s2.find("Msga"), nxt + r.randint(0, 3), grow_bits, r)
        versions.append(s2)
        steps = [[{"step": "append", "message": "Msga", "fields": 1, "depth": 1, "boundary": target, "offset": off}]]
        if r.chance(0.3):
            s3 = s2.clone()
            m3 = s3.find("Msga")
            _pad_to(m3, max(f.num for f in m3.fields) + 1, r.choice([1, 8, 24]), r)
            versions.append(s3)
            steps.append([{"step": "append", "message": "Msga", "fields": 1, "depth": 1}])
    else:
        ebits_t = r.choice([sg.Bool(), sg.Uint(1), sg.Uint(3), sg.Byte(), sg.Int(16), sg.Uint(32), sg.Int(64), sg.Uint(7)])
        eb = sg.nbits(ebits_t)
        maxcap = max(2, min(65535, (60000 - 200) // eb))
        cap2 = min(target, maxcap)
        grow = max(1, min(cap2 - 1, r.choice([1, 1, 2, 7, 8, 255, 256])))
        cap1 = cap2 - grow if kind == "arr_s2" else cap2
        cap2 = cap2 if kind == "arr_s2" else min(maxcap + 0, cap1 + grow)
        if cap2 <= cap1:
            cap2 = cap1 + 1
        arr1 = sg.Array(ebits_t, cap1, True)
        use_alias = r.chance(0.4)
        at = sg.Alias("Alsd", arr1) if use_alias else arr1
        root1.fields = head + [sg.Field(2, "x_ext", at), sg.Field(3, "x_follow", follower), sg.Field(4, "x_tail", sg.Uint(r.choice([1, 8, 13])))]
        s.defs = [enum, alias, row] + ([at] if use_alias else []) + [root1]
        versions.append(s)
        s2 = s.clone()
        t2 = s2.find("Packet").fields[1 if off else 0].type
        (t2.target if t2.kind == "alias" else t2).cap = cap2
        versions.append(s2)
        steps = [[{"step": "grow", "from": cap1, "to": cap2, "depth": 1, "boundary": target, "offset": off}]]
    if not all(sg.nbits(m) <= 65535 for v in versions for m in v.all_messages()):
        return None, None
    return versions, steps


def gen_lineage(seed: int, scale: int = 1):
    rng = Rng(seed, "lineage")
    if Rng(seed, "boundary").chance(0.15):
        versions, steps = gen_boundary_lineage(rng.sub("boundary"))
        if versions and len(versions) >= 2:
            return versions, steps
    if Rng(seed, "huge").chance(0.08):
        versions, steps = gen_huge_lineage(rng.sub("huge"))
        if len(versions) >= 2:
            return versions, steps
    for attempt in range(50):
        r = rng.sub("try", attempt)
        s, g = sg.generate(r, fleet=True)
        root = s.find("Packet")
        reach = reachable_types(root)
        if any((t.kind in ("message", "array") and t.ext) for t, _ in reach):
            break
    cfg = g.cfg
    k = r.weighted([(2, 5), (3, 4), (4, 2)]) if scale == 1 else r.weighted([(3, 3), (4, 3), (5, 2), (6, 2)])
    versions = [s]
    steps = []
    cur = s
    for v in range(1, k):
        nxt = cur.clone()
        ev = Evolver(r.sub("evolve", v), cfg, nxt)
        d = ev.step()
        if not d:
            break
        versions.append(nxt)
        steps.append(d)
        cur = nxt
    return versions, steps


# --------------------------------------------------------------------- plans
def gen_plan(seed: int, scale: int = 1):
    if scale > 1 and not Rng(seed, "scale").chance(0.34):
        scale = 1
    versions, steps = gen_lineage(seed, scale)
    k = len(versions)
    rng = Rng(seed, "fleet")
    newest = versions[-1].find("Packet")
    nnodes = rng.randint(3, 6) if scale == 1 else rng.randint(5, 9)
    nodes = []
    for i in range(nnodes):
        role = "producer" if i == 0 else rng.weighted([("producer", 3), ("relay", 3), ("sink", 4)])
        nodes.append({"id": i, "runtime": rng.choice(["py", "c"]), "role": role, "version": rng.below(k), "relay_same_object": rng.chance(0.7)})
    # at least one node on the oldest and one producer on the newest version
    nodes[0]["version"] = k - 1
    nodes[-1]["version"] = 0
    nodes[-1]["role"] = "sink" if nodes[-1]["role"] == "producer" else nodes[-1]["role"]
    nodes.append({"id": nnodes, "runtime": "ref", "role": "producer", "version": k - 1})  # reference producer (stub)
    events = []
    t = 0
    nticks = (rng.randint(12, 40) * scale) if sg.nbits(newest) < 8000 else rng.randint(3, 6)
    styles = ["zero", "ones", "max", "min", "alt", "rand", "mixed", "mixed", "rand"]
    producers = [n["id"] for n in nodes if n["role"] == "producer"]
    receivers = [n["id"] for n in nodes if n["runtime"] != "ref"]
    p_upgrade = rng.choice([0.05, 0.15, 0.3])
    p_rollback = rng.choice([0.0, 0.05, 0.15])
    for _ in range(nticks):
        t += rng.randint(1, 50)
        src = rng.choice(producers)
        value = refmodel.gen_value(rng, newest, rng.choice(styles))
        dsts = [d for d in receivers if d != src and rng.chance(0.6)] or [rng.choice([d for d in receivers if d != src])]
        events.append({"t": t, "type": "tick", "node": src, "value": value, "dst": dsts, "lat": [rng.randint(1, 120) for _ in dsts], "relay_lat": [rng.randint(1, 80) for _ in range(4)]})
        if rng.chance(p_upgrade):
            n = rng.choice(nodes)
            events.append({"t": t + rng.randint(1, 40), "type": "upgrade", "node": n["id"]})
        if rng.chance(p_rollback):
            n = rng.choice(nodes[:-1])
            events.append({"t": t + rng.randint(1, 40), "type": "rollback", "node": n["id"]})
    events.sort(key=lambda e: e["t"])
    # a third of the fleets keep part of the schema in an imported file (what is where may change
    # from version to version as definitions start to refer to one another; never the wire format)
    split = None
    srng = Rng(seed, "split")
    if srng.chance(0.5):
        v0 = versions[0]
        cands = [d for d in v0.defs if d.kind in ("message", "enum", "alias") and d.name != "Packet"]
        if srng.chance(0.5):
            # a random subset (closed under "refers to" when printed)
            picked = [d.name for d in cands if srng.chance(0.6)]
        else:
            # a horizontal cut: everything up to a seeded height of the "refers to" order goes to
            # the library, its users stay in the main file -- so the file boundary runs between
            # extensible messages / arrays and the element and field types they are made of
            by_id = {id(d): d for d in v0.defs}
            height = {}

            def h(d):
                if id(d) not in height:
                    height[id(d)] = 0  # (cycle guard; the generator emits none)
                    deps = [by_id[i] for i in v0._top_deps(d) if i in by_id]
                    height[id(d)] = 1 + max([h(x) for x in deps] or [-1])
                return height[id(d)]

            top = max([h(d) for d in cands] or [0])
            cut = srng.below(top + 1)
            picked = [d.name for d in cands if h(d) <= cut]
        if picked:
            split = {"lib": picked, "alias": srng.choice(["lib", "base", "x"])}
            # The pinned Python generator drops the module prefix when the main file refers to a
            # message NESTED inside a message of an imported file (`lib.Outer.Inner` becomes
            # `Outer_Inner`: NameError when the generated module is imported) -- a defect of
            # "generated code is accepted by the target toolchain" (C10), not of C05. Fleets whose
            # schema has that shape run on the C runtime only (the C generator is right).
            for i, v in enumerate(versions):
                v.split_nested_ref = False
                v.split_texts(split["lib"], "pktlibv%d" % i, "pktlibv%d.bitproto" % i, split["alias"])
                if v.split_nested_ref:
                    split["c_only"] = True
            if split.get("c_only"):
                for n in nodes:
                    if n["runtime"] == "py":
                        n["runtime"] = "c"
    plan = {
        "world": "fleet",
        "seed": seed,
        "hashseed": Rng(seed, "env", "hashseed").below(4294967295) + 1,
        "lineage": [schema_to_json(v) for v in versions],
        "steps": steps,
        "nodes": nodes,
        "events": events,
    }
    if split:
        plan["split"] = split
    # build-configuration knob (own stream: nothing else shifts): the C nodes of a fleet are built
    # with one of two compilers at one of five optimisation levels
    crng = Rng(seed, "cc")
    plan["cc"] = {"compiler": crng.weighted([("gcc", 3), ("clang", 2)]), "opt": crng.weighted([("-O0", 2), ("-O1", 3), ("-O2", 3), ("-O3", 2), ("-Os", 1)])}
    return plan
