"""Build generated C code + the C runtime from /repo's working tree into a
shared object and load it with ctypes. Structs are opaque to the harness: it
only needs EncodePacket / DecodePacket and sizeof(struct Packet)."""

import ctypes
import mmap
import os
import subprocess

from .simfs import REPO, HarnessError

LIBC = ctypes.CDLL(None, use_errno=True)
PAGE = mmap.PAGESIZE
CFLAGS = ["-O1", "-fPIC", "-w", "-std=gnu99"]
COMPILERS = ("gcc", "clang")
OPT_LEVELS = ("-O0", "-O1", "-O2", "-O3", "-Os")


def toolchain(cc=None):
    """Command prefix for one fleet's C builds. The compiler and its optimisation level are a
    per-fleet knob of the plan (`cc`: {"compiler", "opt"}); plans without it (older replays)
    build as before with gcc -O1. A correct decoder gives the same values under every
    conforming compiler, so the knob can only expose code whose result depends on one."""
    if not cc:
        return ["gcc"] + CFLAGS
    comp, opt = cc.get("compiler", "gcc"), cc.get("opt", "-O1")
    if comp not in COMPILERS or opt not in OPT_LEVELS:
        raise HarnessError("unknown C toolchain in plan: %r" % (cc,))
    return [comp, opt] + CFLAGS[1:]

SHIM_HEAD = """#include <stddef.h>
#include <stdint.h>
#include <signal.h>
#include <setjmp.h>
#include <sys/time.h>
#define VERIF_CPU_LIMIT_S 10
#include "%(header)s"

size_t VerifSizeofPacket(void) { return sizeof(struct Packet); }

/* Guarded calls: a fault inside the codec is reported as a status instead of
   killing the simulated fleet. */
static sigjmp_buf verif_jmp;
static void verif_on_fault(int sig) { siglongjmp(verif_jmp, sig); }

static const int verif_sigs[] = {SIGSEGV, SIGBUS, SIGFPE, SIGABRT, SIGILL, SIGVTALRM};
#define VERIF_NSIGS ((int)(sizeof(verif_sigs) / sizeof(verif_sigs[0])))

/* rc: 0 returned normally; otherwise the signal that ended the call (SIGVTALRM: the call
   used more than VERIF_CPU_LIMIT_S seconds of CPU time -- an endless loop) */
static int verif_guarded(int (*fn)(struct Packet *, unsigned char *), struct Packet *m, unsigned char *s) {
    struct sigaction sa, old[VERIF_NSIGS];
    struct itimerval lim, off, old_timer;
    sa.sa_handler = verif_on_fault;
    sigemptyset(&sa.sa_mask);
    sa.sa_flags = SA_NODEFER;
    for (int i = 0; i < VERIF_NSIGS; i++) sigaction(verif_sigs[i], &sa, &old[i]);
    lim.it_interval.tv_sec = 0; lim.it_interval.tv_usec = 0;
    lim.it_value.tv_sec = VERIF_CPU_LIMIT_S; lim.it_value.tv_usec = 0;
    off.it_interval = lim.it_interval; off.it_value.tv_sec = 0; off.it_value.tv_usec = 0;
    int rc = sigsetjmp(verif_jmp, 1);
    if (rc == 0) {
        setitimer(ITIMER_VIRTUAL, &lim, &old_timer);
        fn(m, s);
    }
    setitimer(ITIMER_VIRTUAL, &off, NULL);
    for (int i = 0; i < VERIF_NSIGS; i++) sigaction(verif_sigs[i], &old[i], NULL);
    return rc;
}

int VerifDecode(struct Packet *m, unsigned char *s) { return verif_guarded(DecodePacket, m, s); }
int VerifEncode(struct Packet *m, unsigned char *s) { return verif_guarded(EncodePacket, m, s); }
"""


def _walk(t, expr, depth, emit, lines, ind):
    """Emit one statement per scalar leaf, in the canonical flatten order
    (fields by number, array elements by index)."""
    k = t.kind
    pad = "    " * ind
    if k == "alias":
        _walk(t.target, expr, depth, emit, lines, ind)
    elif k == "message":
        for f in t.sorted_fields():
            _walk(f.type, "%s.%s" % (expr, f.name), depth, emit, lines, ind)
    elif k == "array":
        iv = "i%d" % depth
        lines.append("%sfor (int %s = 0; %s < %d; %s++) {" % (pad, iv, iv, t.cap, iv))
        _walk(t.elem, "%s[%s]" % (expr, iv), depth + 1, emit, lines, ind + 1)
        lines.append(pad + "}")
    else:
        lines.append(pad + emit(expr, t))


def gen_shim(header: str, root) -> str:
    """C accessors generated from the harness's own schema model: the struct is
    reached only through the schema's field names."""
    fill, read = [], []

    def emit_fill(expr, t):
        if t.kind == "bool":
            return "%s = (v[k++] & 1) ? true : false;" % expr
        return "%s = v[k++];" % expr

    def emit_read(expr, t):
        if t.kind == "int":
            return "v[k++] = (uint64_t)(int64_t)%s;" % expr
        return "v[k++] = (uint64_t)%s;" % expr

    _walk(root, "(*m)", 0, emit_fill, fill, 1)
    _walk(root, "(*m)", 0, emit_read, read, 1)
    out = SHIM_HEAD % {"header": os.path.basename(header)}
    out += "\nvoid VerifFill(struct Packet *m, const uint64_t *v) {\n    size_t k = 0;\n%s\n    (void)k;\n}\n" % "\n".join(fill)
    out += "\nvoid VerifRead(struct Packet *m, uint64_t *v) {\n    size_t k = 0;\n%s\n    (void)k;\n}\n" % "\n".join(read)
    return out


def flatten(t, v, out):
    """Canonical flatten order shared with the generated accessors. Values are
    stored modulo 2**64 (two's complement for negatives)."""
    k = t.kind
    if k == "alias":
        flatten(t.target, v, out)
    elif k == "message":
        for f in t.sorted_fields():
            flatten(f.type, v[str(f.num)], out)
    elif k == "array":
        for i in range(t.cap):
            flatten(t.elem, v[i], out)
    elif k == "bool":
        out.append(1 if v else 0)
    else:
        out.append(int(v) & 0xFFFFFFFFFFFFFFFF)
    return out


def unflatten(t, it):
    k = t.kind
    if k == "alias":
        return unflatten(t.target, it)
    if k == "message":
        return {str(f.num): unflatten(f.type, it) for f in t.sorted_fields()}
    if k == "array":
        return [unflatten(t.elem, it) for _ in range(t.cap)]
    x = next(it)
    if k == "bool":
        return bool(x)
    if k == "int":
        return x - (1 << 64) if x >> 63 else x
    return x


class CBuildError(Exception):
    pass


def build_runtime(workdir: str, cc=None) -> str:
    obj = os.path.join(workdir, "bitproto_rt.o")
    p = subprocess.run(toolchain(cc) + ["-c", REPO + "/lib/c/bitproto.c", "-I", REPO + "/lib/c", "-o", obj], capture_output=True, text=True)
    if p.returncode != 0:
        raise CBuildError("runtime does not compile: " + p.stderr[-1500:])
    return obj


def build_version(workdir: str, c_file: str, header: str, rt_obj: str, tag: str, root, extra_c=(), cc=None) -> str:
    shim = os.path.join(workdir, "shim_%s.c" % tag)
    with open(shim, "w") as f:
        f.write(gen_shim(header, root))
    so = os.path.join(workdir, "lib_%s.so" % tag)
    p = subprocess.run(toolchain(cc) + ["-shared", "-o", so, c_file] + list(extra_c) + [shim, rt_obj, "-I", REPO + "/lib/c", "-I", os.path.dirname(header)], capture_output=True, text=True)
    if p.returncode != 0:
        raise CBuildError("generated C does not compile: " + p.stderr[-1500:])
    return so


class CCodec:
    def __init__(self, so_path: str, root):
        self.root = root
        self.lib = ctypes.CDLL(so_path)
        for name in ("VerifEncode", "VerifDecode"):
            fn = getattr(self.lib, name)
            fn.argtypes = [ctypes.c_void_p, ctypes.c_void_p]
            fn.restype = ctypes.c_int
        self.lib.VerifFill.argtypes = [ctypes.c_void_p, ctypes.c_void_p]
        self.lib.VerifFill.restype = None
        self.lib.VerifRead.argtypes = [ctypes.c_void_p, ctypes.c_void_p]
        self.lib.VerifRead.restype = None
        self.lib.VerifSizeofPacket.restype = ctypes.c_size_t
        self.size = int(self.lib.VerifSizeofPacket())
        self.nleaves = len(flatten(root, __import__("sim.refmodel", fromlist=["zero_value"]).zero_value(root), []))

    def new_struct(self):
        buf = ctypes.create_string_buffer(self.size + 64)
        ctypes.memset(ctypes.byref(buf, self.size), 0xA5, 64)
        return buf

    def struct_guard_ok(self, buf) -> bool:
        return buf.raw[self.size :] == b"\xa5" * 64

    def fill(self, struct, value) -> None:
        flat = flatten(self.root, value, [])
        arr = (ctypes.c_uint64 * max(1, len(flat)))(*flat)
        self.lib.VerifFill(ctypes.addressof(struct), ctypes.addressof(arr))

    def read(self, struct):
        arr = (ctypes.c_uint64 * max(1, self.nleaves))()
        self.lib.VerifRead(ctypes.addressof(struct), ctypes.addressof(arr))
        return unflatten(self.root, iter(list(arr)[: self.nleaves]))

    def decode(self, struct, src_addr) -> int:
        """Returns 0, or the number of the signal raised inside DecodePacket."""
        return int(self.lib.VerifDecode(ctypes.addressof(struct), src_addr))

    def encode(self, struct, nbytes: int):
        out = ctypes.create_string_buffer(nbytes + 64)
        ctypes.memset(ctypes.byref(out, nbytes), 0x5A, 64)
        rc = int(self.lib.VerifEncode(ctypes.addressof(struct), ctypes.addressof(out)))
        raw = out.raw
        return rc, raw[:nbytes], raw[nbytes:] == b"\x5a" * 64


class GuardedBuffer:
    """Read-only input buffer whose end coincides with an inaccessible page:
    any read past the end of the encoded message faults (SIGSEGV)."""

    def __init__(self, data: bytes):
        n = len(data)
        pages = (n + PAGE - 1) // PAGE or 1
        self.mm = mmap.mmap(-1, (pages + 1) * PAGE)
        self.base = ctypes.addressof(ctypes.c_char.from_buffer(self.mm))
        start = pages * PAGE - n
        self.mm[start : start + n] = data
        self.addr = self.base + start
        LIBC.mprotect.argtypes = [ctypes.c_void_p, ctypes.c_size_t, ctypes.c_int]
        if LIBC.mprotect(self.base + pages * PAGE, PAGE, 0) != 0:
            raise HarnessError("mprotect failed")
        self.pages = pages

    def close(self):
        LIBC.mprotect(self.base + self.pages * PAGE, PAGE, 3)
        # drop exported pointer before closing the map
        self.base = None
        try:
            self.mm.close()
        except BufferError:
            pass


class PlainBuffer:
    def __init__(self, data: bytes, slack: int = 64):
        self.buf = ctypes.create_string_buffer(bytes(data) + b"\x00" * slack, len(data) + slack)
        self.addr = ctypes.addressof(self.buf)

    def close(self):
        pass
