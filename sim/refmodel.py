"""Independent reference model of the bitproto wire format.

Written from docs/language.rst and the statements of C01/C05; shares no code
with bitproto. Operates on schemagen types.

  * fields in ascending field-number order, no gaps
  * each value occupies exactly its declared width, least-significant bit first
  * signed values: two's complement truncated to the width
  * extensible message: prefixed by its own bit size (prefix included) as a
    16-bit number; extensible array: prefixed by its capacity as a 16-bit number
  * stream bit k lives in byte k div 8 at bit position k mod 8; padding is zero
"""

from .schemagen import nbits


def _bits(v: int, n: int):
    v &= (1 << n) - 1
    return [(v >> i) & 1 for i in range(n)]


def encode_bits(t, v, out):
    k = t.kind
    if k == "bool":
        out.append(1 if v else 0)
    elif k == "byte":
        out.extend(_bits(int(v), 8))
    elif k == "uint":
        out.extend(_bits(int(v), t.n))
    elif k == "int":
        out.extend(_bits(int(v), t.n))
    elif k == "enum":
        out.extend(_bits(int(v), t.bits))
    elif k == "alias":
        encode_bits(t.target, v, out)
    elif k == "array":
        if t.ext:
            out.extend(_bits(t.cap, 16))
        for i in range(t.cap):
            encode_bits(t.elem, v[i], out)
    elif k == "message":
        if t.ext:
            out.extend(_bits(nbits(t), 16))
        for f in t.sorted_fields():
            encode_bits(f.type, v[str(f.num)], out)
    else:
        raise ValueError(k)


def ref_encode(t, v) -> bytes:
    bits = []
    encode_bits(t, v, bits)
    assert len(bits) == nbits(t), (len(bits), nbits(t))
    out = bytearray((len(bits) + 7) // 8)
    for i, b in enumerate(bits):
        if b:
            out[i >> 3] |= 1 << (i & 7)
    return bytes(out)


def restrict(v, ts, tr):
    """Project a value of sender type `ts` onto receiver type `tr`, where ts was
    obtained from tr by the permitted extension steps only."""
    k = tr.kind
    if k != ts.kind:
        raise ValueError("restrict: kind mismatch %s vs %s" % (ts.kind, k))
    if k == "alias":
        return restrict(v, ts.target, tr.target)
    if k == "array":
        if ts.cap < tr.cap:
            raise ValueError("restrict: array shrank")
        return [restrict(v[i], ts.elem, tr.elem) for i in range(tr.cap)]
    if k == "message":
        sf = {f.num: f for f in ts.fields}
        out = {}
        for f in tr.fields:
            if f.num not in sf:
                raise ValueError("restrict: field %d missing in sender" % f.num)
            out[str(f.num)] = restrict(v[str(f.num)], sf[f.num].type, f.type)
        return out
    return v


def zero_value(t):
    k = t.kind
    if k == "bool":
        return False
    if k in ("byte", "uint", "int", "enum"):
        return 0
    if k == "alias":
        return zero_value(t.target)
    if k == "array":
        return [zero_value(t.elem) for _ in range(t.cap)]
    if k == "message":
        return {str(f.num): zero_value(f.type) for f in t.fields}
    raise ValueError(k)


def gen_value(rng, t, style):
    """style: 'zero' | 'ones' | 'max' | 'min' | 'rand' | 'mixed' | 'alt'"""
    k = t.kind
    if style == "mixed":
        st = rng.choice(["zero", "ones", "max", "min", "rand", "rand", "alt"])
    else:
        st = style
    if k == "bool":
        return {"zero": False, "ones": True, "max": True, "min": False, "alt": True}.get(st, rng.chance(0.5))
    if k in ("byte", "uint"):
        n = 8 if k == "byte" else t.n
        top = (1 << n) - 1
        if st == "zero" or st == "min":
            return 0
        if st in ("ones", "max"):
            return top
        if st == "alt":
            return 0xAAAAAAAAAAAAAAAA & top
        return rng.below(top + 1)
    if k == "int":
        n = t.n
        lo, hi = -(1 << (n - 1)), (1 << (n - 1)) - 1
        if st == "zero":
            return 0
        if st == "ones":
            return -1
        if st == "max":
            return hi
        if st == "min":
            return lo
        if st == "alt":
            v = 0x5555555555555555 & ((1 << n) - 1)
            return v - (1 << n) if v > hi else v
        return lo + rng.below(hi - lo + 1)
    if k == "enum":
        vals = [v for _, v in t.members]
        if st == "zero":
            return vals[0]
        if st in ("ones", "max"):
            return max(vals)
        if st == "min":
            return min(vals)
        return rng.choice(vals)
    if k == "alias":
        return gen_value(rng, t.target, style)
    if k == "array":
        return [gen_value(rng, t.elem, style) for _ in range(t.cap)]
    if k == "message":
        return {str(f.num): gen_value(rng, f.type, style) for f in t.fields}
    raise ValueError(k)
