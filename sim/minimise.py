"""Delta debugging (ddmin) used to minimise failing plans.

A candidate is kept only if the *same violation signature* reproduces in a
fresh process. Time- and call-capped.
"""

import time


class Budget:
    def __init__(self, max_calls: int, max_seconds: float):
        self.calls = 0
        self.max_calls = max_calls
        self.deadline = time.monotonic() + max_seconds

    def ok(self) -> bool:
        return self.calls < self.max_calls and time.monotonic() < self.deadline

    def tick(self) -> None:
        self.calls += 1


def ddmin(items, test, budget: Budget, keep=lambda x: False):
    """Smallest sublist (1-minimal under the budget) for which test(sublist) holds.
    Items with keep(item) True are never removed."""
    items = list(items)
    n = 2
    while len([x for x in items if not keep(x)]) >= 1 and budget.ok():
        removable = [i for i, x in enumerate(items) if not keep(x)]
        if not removable:
            break
        n = min(n, len(removable))
        chunk = max(1, len(removable) // n)
        reduced = False
        # try removing each chunk (complement test)
        for start in range(0, len(removable), chunk):
            if not budget.ok():
                break
            drop = set(removable[start : start + chunk])
            cand = [x for i, x in enumerate(items) if i not in drop]
            budget.tick()
            if test(cand):
                items = cand
                n = max(n - 1, 2)
                reduced = True
                break
        if not reduced:
            if chunk == 1:
                break
            n = min(len(removable), n * 2)
    return items


def shrink_text(text: str, test, budget: Budget) -> str:
    """Line-level ddmin, then token-ish shrinking of long lines."""
    lines = text.split("\n")
    lines = ddmin(lines, lambda ls: test("\n".join(ls)), budget)
    return "\n".join(lines)
