"""Structured bitproto schema generator.

A schema is a tree of Python objects that can be (a) printed as bitproto text
for the real compiler and (b) interpreted by the independent reference model
(refmodel.py). Used by the fleet world (C05: lineages of versions) and by the
compiler world (valid multi-construct inputs).

Nothing here imports bitproto.
"""

import copy

KEYWORDS = {"proto", "import", "option", "type", "const", "enum", "message", "typedef", "true", "false", "yes", "no", "bool", "byte"}


def letters(k: int) -> str:
    s = ""
    k += 1
    while k > 0:
        k -= 1
        s = chr(ord("a") + k % 26) + s
        k //= 26
    return s


# ------------------------------------------------------------------- types
class T:
    kind = "?"


class Bool(T):
    kind = "bool"

    def ref(self, scope=None):
        return "bool"


class Byte(T):
    kind = "byte"

    def ref(self, scope=None):
        return "byte"


class Uint(T):
    kind = "uint"

    def __init__(self, n):
        self.n = n

    def ref(self, scope=None):
        return "uint%d" % self.n


class Int(T):
    kind = "int"

    def __init__(self, n):
        self.n = n

    def ref(self, scope=None):
        return "int%d" % self.n


class Array(T):
    kind = "array"

    def __init__(self, elem, cap, ext=False):
        self.elem = elem
        self.cap = cap
        self.ext = ext

    def ref(self, scope=None):
        return "%s[%d]%s" % (self.elem.ref(scope), self.cap, "'" if self.ext else "")


# While a schema is printed as two files, references from the main file into the library file
# are qualified with the import alias (set by Schema.split_texts for the duration of the print).
_SPLIT = {"lib": None, "alias": None, "in_lib": False, "nested_ref": False}


def top_of(d):
    while getattr(d, "parent", None) is not None:
        d = d.parent
    return d


class Named(T):
    """A definition with a name, living in a scope (parent: Message or None=top)."""

    def __init__(self, name):
        self.name = name
        self.parent = None

    def path(self):
        p, cur = [], self
        while cur is not None:
            p.append(cur.name)
            cur = cur.parent
        return p[::-1]

    def ref(self, scope=None):
        """Name by which this definition is referenced from inside `scope`
        (a Message or None for top level)."""
        if _SPLIT["lib"] is not None and not _SPLIT["in_lib"] and id(top_of(self)) in _SPLIT["lib"]:
            # defined in the imported file: always the full dotted path behind the alias
            if self.parent is not None:
                _SPLIT["nested_ref"] = True
            return _SPLIT["alias"] + "." + ".".join(self.path())
        mine = self.path()
        enclosing = []
        cur = scope
        while cur is not None:
            enclosing.append(cur)
            cur = cur.parent
        # a definition declared directly in an enclosing scope is visible by simple name
        if self.parent is None or self.parent in enclosing:
            return self.name
        # otherwise walk up to the first ancestor that is visible by simple name
        chain = [self.name]
        cur = self.parent
        while cur is not None:
            chain.append(cur.name)
            if cur.parent is None or cur.parent in enclosing:
                break
            cur = cur.parent
        return ".".join(chain[::-1])


class Enum(Named):
    kind = "enum"

    def __init__(self, name, bits, members):
        super().__init__(name)
        self.bits = bits
        self.members = members  # [(NAME, value)]


class Alias(Named):
    kind = "alias"

    def __init__(self, name, target):
        super().__init__(name)
        self.target = target


class Field:
    def __init__(self, num, name, type_):
        self.num = num
        self.name = name
        self.type = type_


class Message(Named):
    kind = "message"

    def __init__(self, name, ext=False):
        super().__init__(name)
        self.ext = ext
        self.fields = []  # declaration order
        self.nested = []  # nested definitions (Message / Enum), declared before fields
        self.options = []  # [(name, literal text)]

    def sorted_fields(self):
        return sorted(self.fields, key=lambda f: f.num)


class Const:
    kind = "const"

    def __init__(self, name, expr_text, value):
        self.name = name
        self.expr = expr_text
        self.value = value
        self.parent = None


class Schema:
    def __init__(self, name):
        self.name = name
        self.defs = []  # top-level definitions in declaration order
        self.counter = 0
        self.comments = True
        self.odd_def_names = None  # (rng, pool): unusual but legal definition names (compiler world only)
        self.used_names = {"Packet"}
        self.style = None  # printing noise (comments, semicolons, hex, typedef, CRLF): non-fleet only
        self.options = []  # proto-level options [(name, literal)]

    def fresh(self, prefix):
        k = self.counter
        self.counter += 1
        if self.odd_def_names is not None:
            rng, pool = self.odd_def_names
            if rng.chance(0.25):
                cand = rng.choice(pool)
                if cand not in self.used_names:
                    self.used_names.add(cand)
                    return cand
        return prefix + letters(k)

    def clone(self):
        return copy.deepcopy(self)

    # --------------------------------------------------------------- printing
    def text(self) -> str:
        st = self.style
        self._noise = None
        if st:
            from .prng import Rng

            self._noise = Rng(st.get("seed", 0), "style")
        out = []
        if st and st.get("lead_comment"):
            out.append("// leading comment before proto")
            out.append("")
        out += ["// generated schema", "proto %s%s" % (self.name, self._semi()), ""]
        for n, v in self.options:
            out.append("option %s = %s%s" % (n, v, self._semi()))
        if self.options:
            out.append("")
        for d in self.defs:
            out.extend(self._print_def(d, 0, None))
            out.append("")
        text = "\n".join(out) + "\n"
        if st and st.get("tail_comment"):
            text += "// trailing comment" + ("\n" if st.get("tail_newline", True) else "")
        if st and st.get("crlf"):
            text = text.replace("\n", "\r\n")
        return text

    # ------------------------------------------------------- two-file printing
    def _top_deps(self, d):
        """Top-level definitions a definition refers to (through fields, nested definitions,
        alias targets and array elements)."""
        out = set()

        def ty(t):
            k = getattr(t, "kind", None)
            if k == "array":
                ty(t.elem)
            elif k in ("message", "enum", "alias"):
                out.add(id(top_of(t)))

        def rec(x):
            if x.kind == "alias":
                ty(x.target)
            elif x.kind == "message":
                for nd in x.nested:
                    rec(nd)
                for f in x.fields:
                    ty(f.type)

        rec(d)
        out.discard(id(d))
        return out

    def split_texts(self, lib_names, lib_proto: str, lib_file: str, alias: str = "lib"):
        """Print the schema as a main file importing a library file. The library holds the
        top-level definitions named in `lib_names` plus everything they refer to (so the
        library is self-contained); `Packet` always stays in the main file. Returns
        (main_text, lib_text) or (text, None) if nothing ends up in the library. Moving
        definitions between files does not change the wire format."""
        by_id = {id(d): d for d in self.defs}
        lib = {id(d) for d in self.defs if getattr(d, "name", None) in set(lib_names) and d.kind in ("message", "enum", "alias") and d.name != "Packet"}
        work = list(lib)
        while work:
            cur = by_id[work.pop()]
            for dep in self._top_deps(cur):
                if dep not in lib and dep in by_id:
                    lib.add(dep)
                    work.append(dep)
        lib = {i for i in lib if by_id[i].name != "Packet"}
        if not lib or any(d.kind == "const" for d in self.defs):
            return self.text(), None
        self._noise = None
        try:
            _SPLIT.update(lib=lib, alias=alias, in_lib=True, nested_ref=False)
            out = ["// generated schema (library part)", "proto %s" % lib_proto, ""]
            for d in self.defs:
                if id(d) in lib:
                    out.extend(self._print_def(d, 0, None))
                    out.append("")
            lib_text = "\n".join(out) + "\n"
            _SPLIT.update(in_lib=False)
            out = ["// generated schema (main part)", "proto %s" % self.name, "", 'import %s "%s"' % (alias, lib_file), ""]
            for d in self.defs:
                if id(d) not in lib:
                    out.extend(self._print_def(d, 0, None))
                    out.append("")
            main_text = "\n".join(out) + "\n"
        finally:
            # (did the main file refer to a definition NESTED in a message of the library?)
            self.split_nested_ref = bool(_SPLIT["nested_ref"])
            _SPLIT.update(lib=None, alias=None, in_lib=False, nested_ref=False)
        return main_text, lib_text

    def _semi(self):
        n = self._noise
        return ";" if n is not None and n.chance(0.3) else ""

    def _comment(self, pad, lines):
        n = self._noise
        if n is not None and n.chance(0.2):
            for _ in range(n.randint(1, 2)):
                lines.append("%s// %s" % (pad, n.choice(["note", "TODO: x", "", "a // b", "é", "  spaced  ", "ends with backslash \\\\"])))

    def _print_def(self, d, ind, scope):
        pad = " " * ind
        lines = []
        self._comment(pad, lines)
        if d.kind == "const":
            return lines + ["%sconst %s = %s%s" % (pad, d.name, d.expr, self._semi())]
        if d.kind == "enum":
            lines.append("%senum %s : uint%d {" % (pad, d.name, d.bits))
            for n, v in d.members:
                self._comment(pad + "    ", lines)
                lit = ("0x%x" % v) if self._noise is not None and self._noise.chance(0.2) else "%d" % v
                lines.append("%s    %s = %s%s" % (pad, n, lit, self._semi()))
            lines.append(pad + "}")
            return lines
        if d.kind == "alias":
            if self._noise is not None and self.style.get("typedef") and self._noise.chance(0.3):
                return lines + ["%stypedef %s %s%s" % (pad, d.target.ref(scope), d.name, self._semi())]
            return lines + ["%stype %s = %s%s" % (pad, d.name, d.target.ref(scope), self._semi())]
        if d.kind == "message":
            lines.append("%smessage %s%s {" % (pad, d.name, "'" if d.ext else ""))
            for n, v in d.options:
                lines.append("%s    option %s = %s%s" % (pad, n, v, self._semi()))
            for nd in d.nested:
                lines.extend(self._print_def(nd, ind + 4, d))
            for f in d.fields:
                self._comment(pad + "    ", lines)
                tail = "  // %dbit" % nbits(f.type) if self._noise is not None and self._noise.chance(0.1) else ""
                lines.append("%s    %s %s = %d%s%s" % (pad, f.type.ref(d), f.name, f.num, self._semi(), tail))
            lines.append(pad + "}")
            return lines
        raise ValueError(d.kind)

    # -------------------------------------------------------------- traversal
    def find(self, name):
        for d in self.defs:
            if getattr(d, "name", None) == name:
                return d
        return None

    def all_messages(self):
        out = []

        def rec(m):
            out.append(m)
            for nd in m.nested:
                if nd.kind == "message":
                    rec(nd)

        for d in self.defs:
            if d.kind == "message":
                rec(d)
        return out


def nbits(t) -> int:
    k = t.kind
    if k == "bool":
        return 1
    if k == "byte":
        return 8
    if k in ("uint", "int"):
        return t.n
    if k == "enum":
        return t.bits
    if k == "alias":
        return nbits(t.target)
    if k == "array":
        return (16 if t.ext else 0) + t.cap * nbits(t.elem)
    if k == "message":
        return (16 if t.ext else 0) + sum(nbits(f.type) for f in t.fields)
    raise ValueError(k)


# --------------------------------------------------------------- generation
class GenCfg:
    """Knobs of one generated schema (drawn per run: swarm style)."""

    def __init__(self, rng, fleet=False):
        self.fleet = fleet
        self.max_depth = rng.randint(1, 4) if not fleet else rng.randint(1, 4)
        self.max_fields = rng.randint(2, 7)
        self.p_ext_msg = rng.choice([0.0, 0.3, 0.6, 0.9]) if not fleet else rng.choice([0.5, 0.7, 0.9])
        self.p_ext_arr = rng.choice([0.0, 0.3, 0.6]) if not fleet else rng.choice([0.4, 0.6, 0.9])
        if not fleet and rng.chance(0.35):
            self.p_ext_msg = self.p_ext_arr = 0.0  # a traditional schema: eligible for optimization mode (-O)
        self.p_array = rng.choice([0.15, 0.3, 0.5])
        self.p_nested_decl = rng.choice([0.0, 0.3, 0.6])
        self.max_cap = rng.choice([3, 5, 9, 17])
        self.wide = rng.chance(0.5)  # allow widths up to 64
        self.bit_budget = 12000 if fleet else 40000
        self.dense_enums = fleet  # fleet: <= 8 bit, all values declared, 0 first (see DESIGN 4, soundness)
        self.consts = not fleet and rng.chance(0.6)
        self.options = not fleet and rng.chance(0.3)
        # rarely combined but legal features (compiler world only)
        # empty (reserved) messages are documented: `message Inner' {}` still costs its 16-bit prefix
        self.p_empty = rng.choice([0.0, 0.1, 0.25]) if fleet else rng.choice([0.0, 0.1, 0.25])
        self.odd_names = not fleet and rng.chance(0.3)
        self.shadow = not fleet and rng.chance(0.3)
        self.wide_enums = not fleet and rng.chance(0.4)
        self.style = None if fleet else {
            "seed": rng.below(1 << 30),
            "lead_comment": rng.chance(0.2),
            "tail_comment": rng.chance(0.2),
            "tail_newline": True,  # a comment at EOF without newline is a grammar error
            "crlf": rng.chance(0.05),
            "typedef": rng.chance(0.2),
        } if rng.chance(0.6) else None


class Generator:
    def __init__(self, rng, cfg, name="pkt"):
        self.rng = rng
        self.cfg = cfg
        self.s = Schema(name)
        if cfg.odd_names:
            self.s.odd_def_names = (rng.sub("oddnames"), ["A" * 36 + "b", "AB" * 18 + "c", "A9" * 18 + "z", "Foo_Bar", "FooBar", "fooBar", "foo_bar", "FOO_BAR", "_", "__", "_x", "X_", "_3d_point", "X9", "ALLCAPS", "lower", "camelCase", "snake_case", "HTTP_Frame_", "A", "T", "Type", "Error", "String", "List", "Data", "Message", "Enum", "Struct", "Class", "Self", "Go", "Map", "Bp", "Ctx", "Json"])
        self.top_pool = []  # named types usable from any later top-level definition

    # scalars
    def width(self):
        r = self.rng
        if self.cfg.wide and r.chance(0.35):
            return r.choice([31, 32, 33, 40, 47, 48, 56, 63, 64])
        return r.choice([1, 2, 3, 4, 5, 6, 7, 8, 9, 11, 12, 13, 15, 16, 17, 23, 24, 25])

    def scalar(self):
        r = self.rng
        k = r.weighted([("bool", 2), ("byte", 2), ("uint", 6), ("int", 4)])
        if k == "bool":
            return Bool()
        if k == "byte":
            return Byte()
        if k == "uint":
            return Uint(self.width())
        return Int(self.width())

    def new_enum(self, parent=None):
        r = self.rng
        name = self.s.fresh("Enm")
        if self.cfg.dense_enums:
            bits = r.randint(1, 3) if r.chance(0.8) else r.randint(4, 5)
            vals = list(range(1 << bits))
            rest = vals[1:]
            r.shuffle(rest)
            vals = [0] + rest
        else:
            bits = r.choice([1, 2, 3, 4, 7, 8, 9, 12, 16, 24, 32] + ([33, 48, 63, 64] if self.cfg.wide_enums else []))
            n = r.randint(1, 5)
            if r.chance(self.cfg.p_empty):
                n = 0
            vals = []
            for _ in range(n):
                v = r.below(min(1 << bits, 1 << 20)) if not (self.cfg.wide_enums and r.chance(0.3)) else r.below(1 << bits)
                if v not in vals:
                    vals.append(v)
            if n and r.chance(0.7) and 0 not in vals:
                vals.insert(0, 0)
        up = name.upper()
        members = [("%s_%s" % (up, letters(i).upper()), v) for i, v in enumerate(vals)]
        e = Enum(name, bits, members)
        e.parent = parent
        return e

    def new_alias(self):
        r = self.rng
        name = self.s.fresh("Als")
        if r.chance(0.5):
            target = self.scalar()
        else:
            target = Array(self.array_elem(None, aliased=True), r.randint(1, self.cfg.max_cap), r.chance(self.cfg.p_ext_arr))
        a = Alias(name, target)
        return a

    def array_elem(self, scope, aliased=False):
        """Element type of an array: scalar, enum, message, alias-of-scalar, or
        alias-of-array (the documented way to build multi-dimensional arrays)."""
        r = self.rng
        pool = [t for t in self.visible(scope) if t.kind in ("enum", "message", "alias")]
        if aliased:
            pool = [t for t in pool if t.parent is None]
        if pool and r.chance(0.5):
            multi = [t for t in pool if t.kind == "alias" and t.target.kind == "array"]
            if multi and r.chance(0.5):
                return r.choice(multi)
            return r.choice(pool)
        return self.scalar()

    def visible(self, scope, dotted=True):
        out = list(self.top_pool)
        cur = scope
        while cur is not None:
            out.extend(cur.nested)
            cur = cur.parent
        if dotted and self.rng.chance(0.25):
            # definitions nested in earlier, closed top-level messages: referenced by dotted name
            def rec(m):
                for nd in m.nested:
                    if nd not in out:
                        out.append(nd)
                    if nd.kind == "message":
                        rec(nd)

            for t in self.top_pool:
                if t.kind == "message":
                    rec(t)
        return out

    def field_type(self, scope, depth):
        r = self.rng
        c = self.cfg
        if r.chance(c.p_array):
            elem = self.array_elem(scope)
            return Array(elem, r.randint(1, c.max_cap), r.chance(c.p_ext_arr))
        pool = self.visible(scope)
        if pool and r.chance(0.55):
            return r.choice(pool)
        return self.scalar()

    def new_message(self, parent, depth, name=None, force_ext=None):
        r = self.rng
        c = self.cfg
        m = Message(name or self.s.fresh("Msg"), r.chance(c.p_ext_msg) if force_ext is None else force_ext)
        m.parent = parent
        # nested declarations first (they must precede their uses)
        if depth < c.max_depth:
            while r.chance(c.p_nested_decl) and len(m.nested) < 3:
                if r.chance(0.3):
                    m.nested.append(self.new_enum(parent=m))
                else:
                    m.nested.append(self.new_message(m, depth + 1))
        nfields = r.randint(0 if not c.fleet and r.chance(0.1) else 1, c.max_fields)
        if r.chance(c.p_empty):
            nfields = 0
        if c.shadow and parent is not None and name is None and r.chance(0.5) and all(n.name != parent.name for n in parent.nested):
            m.name = parent.name  # the same simple name at two nesting levels
        nums = r.sample(range(1, 40 if r.chance(0.8) else 256), nfields)
        odd = ["A" * 36 + "b", "a" * 36 + "B", "A" * 18 + "1" * 18 + "a", "foo_bar", "fooBar", "FooBar", "FOO_BAR", "foo__bar", "foo_bar_", "type", "_lead", "trail_", "ALLCAPS", "camelCase", "PascalCase", "x9", "a__b", "value", "data", "s", "m", "id", "len", "_", "__", "_3d", "X", "ctx", "di", "size", "encode", "bp"]
        for k, num in enumerate(nums):
            fname = "x_" + letters(k)
            if c.odd_names and r.chance(0.3):
                cand = r.choice(odd)
                if cand not in [f.name for f in m.fields]:
                    fname = cand
            f = Field(num, fname, self.field_type(m, depth))
            m.fields.append(f)
        if c.options and r.chance(0.3):
            m.options.append(("max_bytes", str(8192)))
        return m

    def add_fields(self, m, n):
        """Append n new fields with larger field numbers to message m (evolution step)."""
        r = self.rng
        top = max([f.num for f in m.fields], default=0)
        added = []
        for _ in range(n):
            if top >= 255:
                break
            top = top + r.randint(1, min(3, 255 - top))
            idx = len(m.fields)
            names = {f.name for f in m.fields}
            nm = "x_" + letters(idx)
            while nm in names:
                idx += 1
                nm = "x_" + letters(idx)
            f = Field(top, nm, self.field_type(m, 1))
            # declaration position is free: field order on the wire follows the numbers
            m.fields.insert(r.below(len(m.fields) + 1), f)
            added.append(f)
        return added

    def generate(self):
        r = self.rng
        c = self.cfg
        s = self.s
        ntop = r.randint(1, 6)
        if c.consts:
            for i in range(r.randint(1, 3)):
                a, b = r.randint(1, 40), r.randint(1, 9)
                expr, val = r.choice(
                    [
                        ("%d" % a, a),
                        ("%d + %d" % (a, b), a + b),
                        ("%d * %d" % (a, b), a * b),
                        ("(%d + %d) * 2" % (a, b), (a + b) * 2),
                        ("%d / %d" % (a * b, b), a),
                        ("0x%x" % a, a),
                    ]
                )
                s.defs.append(Const("K_" + letters(i).upper(), expr, val))
            if r.chance(0.4):
                s.defs.append(Const("K_STR", '"v%d"' % r.below(100), None))
            if r.chance(0.4):
                s.defs.append(Const("K_FLAG", r.choice(["true", "false", "yes", "no"]), None))
        for _ in range(ntop):
            k = r.weighted([("enum", 2), ("alias", 4 if c.fleet else 2), ("message", 5)])
            if k == "enum":
                d = self.new_enum()
            elif k == "alias":
                d = self.new_alias()
            else:
                d = self.new_message(None, 1)
            s.defs.append(d)
            self.top_pool.append(d)
        if c.options:
            for oname, oval in (("c.struct_packing_alignment", str(r.choice([0, 1, 2, 4, 8]))), ("c.name_prefix", '"%s"' % r.choice(["bp_", "My", "x"])), ("go.package_path", '"example.com/x/y"'), ("py.module_name", '"pkt_mod"')):
                if r.chance(0.3):
                    s.options.append((oname, oval))
        s.style = c.style
        root = self.new_message(None, 1, name="Packet", force_ext=(r.chance(0.7) if c.fleet else None))
        if not root.fields:
            root.fields.append(Field(1, "x_a", self.scalar()))
        s.defs.append(root)
        self.top_pool.append(root)
        self.shrink_to_budget()
        return s

    def shrink_to_budget(self):
        """Keep every message below the bit budget (and below 65535 bits)."""
        for _ in range(200):
            big = [m for m in self.s.all_messages() if nbits(m) > self.cfg.bit_budget]
            if not big:
                return
            m = big[0]
            arrs = [f for f in m.fields if f.type.kind == "array" and f.type.cap > 1]
            if arrs:
                arrs[0].type.cap = max(1, arrs[0].type.cap // 2)
            elif len(m.fields) > 1:
                m.fields.pop()
            else:
                m.fields[0].type = Bool()


def generate(rng, fleet=False, name="pkt"):
    cfg = GenCfg(rng.sub("cfg"), fleet=fleet)
    g = Generator(rng.sub("gen"), cfg, name=name)
    s = g.generate()
    return s, g
