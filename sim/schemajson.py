"""Explicit JSON form of schemagen schemas (for PRNG-free replay files)."""

from . import schemagen as sg


def type_to_json(t):
    k = t.kind
    if k in ("bool", "byte"):
        return {"k": k}
    if k in ("uint", "int"):
        return {"k": k, "n": t.n}
    if k == "array":
        return {"k": "array", "elem": type_to_json(t.elem), "cap": t.cap, "ext": bool(t.ext)}
    if k in ("enum", "alias", "message"):
        return {"k": "ref", "path": t.path()}
    raise ValueError(k)


def def_to_json(d):
    if d.kind == "const":
        return {"k": "const", "name": d.name, "expr": d.expr, "value": d.value}
    if d.kind == "enum":
        return {"k": "enum", "name": d.name, "bits": d.bits, "members": [[n, v] for n, v in d.members]}
    if d.kind == "alias":
        return {"k": "alias", "name": d.name, "target": type_to_json(d.target)}
    if d.kind == "message":
        return {
            "k": "message",
            "name": d.name,
            "ext": bool(d.ext),
            "options": [[n, v] for n, v in d.options],
            "nested": [def_to_json(n) for n in d.nested],
            "fields": [{"num": f.num, "name": f.name, "type": type_to_json(f.type)} for f in d.fields],
        }
    raise ValueError(d.kind)


def schema_to_json(s):
    return {"name": s.name, "counter": s.counter, "defs": [def_to_json(d) for d in s.defs]}


def schema_from_json(j):
    s = sg.Schema(j["name"])
    s.counter = j.get("counter", 0)
    reg = {}

    def load_type(tj):
        k = tj["k"]
        if k == "bool":
            return sg.Bool()
        if k == "byte":
            return sg.Byte()
        if k == "uint":
            return sg.Uint(tj["n"])
        if k == "int":
            return sg.Int(tj["n"])
        if k == "array":
            return sg.Array(load_type(tj["elem"]), tj["cap"], tj["ext"])
        if k == "ref":
            return reg[tuple(tj["path"])]
        raise ValueError(k)

    def load_def(dj, parent):
        k = dj["k"]
        if k == "const":
            d = sg.Const(dj["name"], dj["expr"], dj["value"])
            return d
        if k == "enum":
            d = sg.Enum(dj["name"], dj["bits"], [(n, v) for n, v in dj["members"]])
        elif k == "alias":
            d = sg.Alias(dj["name"], load_type(dj["target"]))
        elif k == "message":
            d = sg.Message(dj["name"], dj["ext"])
            d.options = [(n, v) for n, v in dj.get("options", [])]
        else:
            raise ValueError(k)
        d.parent = parent
        reg[tuple(d.path())] = d
        if k == "message":
            for nj in dj["nested"]:
                d.nested.append(load_def(nj, d))
            for fj in dj["fields"]:
                d.fields.append(sg.Field(fj["num"], fj["name"], load_type(fj["type"])))
        return d

    for dj in j["defs"]:
        s.defs.append(load_def(dj, None))
    return s
