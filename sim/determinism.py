"""Large-sample determinism proof of the simulator (development aid).

For N seeds per world: execute the fault-free plan (and, for the compiler
world, the faulted plan) (a) with 16 workers, (b) again with 5 workers,
(c) under another PYTHONHASHSEED with ASLR on. (a)==(b) must hold exactly
(complete event-log digests). (c) is compared on the same digest too; a
difference there is reported separately (it would mean bitproto's *behaviour*,
not only its heap layout, depends on the hash seed).

usage: python -m sim.determinism [N]
"""

import sys

from . import fleetgen, gen_compiler, runner


def plans_for(world, seed):
    if world == "fleet":
        return [fleetgen.gen_plan(seed)]
    plan0, _ = gen_compiler.gen_plan(seed, world)
    r = runner.run_plan(plan0)
    if r["status"] != "ok":
        return [plan0]
    faults = gen_compiler.gen_faults(seed, plan0, r["result"])
    if not faults:
        return [plan0]
    p1 = dict(plan0)
    p1["faults"] = faults
    return [plan0, p1]


def dig(plan, other_env=False):
    p = dict(plan)
    if other_env:
        p["hashseed"] = (plan.get("hashseed", 1) * 7919 + 13) % 4294967295 + 1
        p["aslr"] = True
    r = runner.run_plan(p)
    if r["status"] != "ok":
        return "status:" + r["status"]
    res = r["result"]
    if plan.get("world") == "fleet":
        res = {"log": res["log_digest_input"], "violations": res["violations"], "stats": res["stats"]}
    return runner.digest(res)


def main():
    n = int(sys.argv[1]) if len(sys.argv) > 1 else 100
    bad = 0
    for world in ("c09", "c18", "fleet"):
        seeds = [1000003 * (i + 1) + 17 for i in range(n)]
        plans = [p for ps in runner.pmap(lambda s: plans_for(world, s), seeds, 16) for p in ps]
        a = runner.pmap(dig, plans, 16)
        b = runner.pmap(dig, plans, 5)
        c = runner.pmap(lambda p: dig(p, True), plans, 16)
        ab = sum(1 for x, y in zip(a, b) if x != y)
        ac = sum(1 for x, y in zip(a, c) if x != y)
        print("%s: %d executions; same-environment mismatches (16 vs 5 workers): %d; other hash seed + ASLR mismatches: %d" % (world, len(plans), ab, ac))
        bad += ab
    return 1 if bad else 0


if __name__ == "__main__":
    sys.exit(main())
