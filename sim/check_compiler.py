"""Drivers for the two compiler-world checks (C09, C18)."""

import copy
import json
import os
import threading
import time

from . import gen_compiler, oracles, runner
from .minimise import Budget, ddmin, shrink_text
from .prng import Rng, derive

VERIF = runner.VERIF
REPLAYS = os.environ.get("VERIF_REPLAY_DIR") or os.path.join(VERIF, "replays")


# ------------------------------------------------------------------- goldens
def _norm(g: dict) -> dict:
    """Which operating-system error an *unsuccessful* compile reports may depend on how
    the path was spelled (`import ""` is a directory under an absolute path and the empty
    path under a relative one): only 'it failed with an OS error' is compared."""
    o = g["outcome"]
    # (and HOW an unsuccessful compile fails may depend on lint on/off and on API vs command
    # line -- e.g. the deep-nesting RecursionError of the known finding surfaces in lint for B
    # and in the renderer for A: unsuccessful goldens only have to agree on being unsuccessful)
    ok = oracles.succeeded(o)
    return {"outcome": "ok" if ok else "failed", "outputs": g["outputs"] if ok else {}}


class Goldens:
    scale = 1
    """Per-batch cache of golden results. A and B are computed in two different
    processes (hash seed, ASLR, cwd, path style, lint differ) and must agree; a
    seeded sample is recomputed alone in a pristine process (variant P)."""

    def __init__(self):
        self.cache = {}
        self.lock = threading.Lock()
        self.stats = {"goldens": 0, "pure_rechecks": 0, "golden_processes": 0}
        # hash seeds of the golden processes vary with the batch (VERIF_SEED), not with timing
        self.base = int(os.environ.get("VERIF_SEED", "1") or 1)

    def get(self, seed: int, keys: dict) -> dict:
        """Goldens for `keys`. The hash seeds of the golden processes are derived from the batch
        seed (VERIF_SEED) and the *content* of the batch of keys computed together. Which keys
        are still uncached when a seed asks -- and so the composition of the batch -- depends on
        thread timing: on a deterministic compiler that changes nothing; on a tree whose output
        depends on the hash seed, WHICH run reports `golden-disagree` may vary from run to run
        (some run does), and the report carries the batch so that its replay recomputes the very
        same golden processes. (Two threads may compute the same key concurrently; results are
        stored under one lock acquisition, first one wins.)"""
        with self.lock:
            need = {k: v for k, v in keys.items() if k not in self.cache}
        if need:
            ident = "|".join(sorted(need))
            hs = {"A": derive(self.base, "golden", "A", ident) % 1000003 + 1, "B": derive(self.base, "golden", "B", ident) % 1000003 + 7, "P": derive(self.base, "golden", "P", ident) % 1000003 + 13}
            ra = self._run(need, "A", hs["A"], aslr=False)
            rb = self._run(need, "B", hs["B"], aslr=True)
            pick = sorted(need)[derive(0, "golden", "pick", ident) % len(need)]
            rp = self._run({pick: need[pick]}, "A", hs["P"], aslr=True)
            fresh = {}
            for k in need:
                a, b = ra[k], rb[k]
                g = dict(a)
                if a.get("resource_limit") or b.get("resource_limit") or (k == pick and rp[k].get("resource_limit")):
                    g["resource_limit"] = True  # at the recursion limit: not compared (oracles.c18_violations)
                elif _norm(a) != _norm(b):
                    g["disagree"] = {"A": a, "B": b}
                elif k == pick and _norm(rp[k]) != _norm(a):
                    g["disagree"] = {"A": a, "P": rp[k]}
                if g.get("disagree"):
                    g["batch"] = sorted(need)  # what the golden processes compiled together
                fresh[k] = g
            with self.lock:
                self.stats["goldens"] += len(need)
                self.stats["pure_rechecks"] += 1
                self.stats["golden_processes"] += 3
                for k, g in fresh.items():
                    self.cache.setdefault(k, g)
        with self.lock:
            return {k: self.cache[k] for k in keys}

    def _run(self, reqs, variant, hashseed, aslr):
        plan = {"world": "golden", "variant": variant, "requests": reqs, "hashseed": hashseed, "aslr": aslr}
        if variant == "B":
            # one more way in which "the process" may differ: asserts compiled out, another user / TZ / terminal
            plan["env"] = {"PYTHONOPTIMIZE": "1", "TZ": "Pacific/Auckland", "COLUMNS": "33", "NO_COLOR": "1", "USER": "bob", "LOGNAME": "bob", "HOME": "/home/bob", "HOSTNAME": "hostB", "TERM": "xterm-256color", "LANG": "en_US.UTF-8", "SOURCE_DATE_EPOCH": "1000000000"}
        else:
            plan["env"] = {"USER": "alice", "LOGNAME": "alice", "HOME": "/home/alice", "HOSTNAME": "hostA", "TERM": "vt100", "TZ": "UTC"}
        r = runner.run_plan(plan, timeout=600)
        if r["status"] != "ok":
            raise runner.HarnessFailure("golden process failed: %r" % (r,))
        return r["result"]["goldens"]


# ------------------------------------------------------------ one seeded run
def judge(prop: str, plan: dict, res: dict, goldens):
    if prop == "C09":
        return oracles.c09_violations(plan, res) + oracles.c09_cli_rules(plan, res), []
    return oracles.c18_violations(plan, res, goldens)


STATS = {"worker_retries": 0, "wall_stalls_seen": 0, "wall_stalls_unconfirmed": 0, "wall_stalls_confirmed": 0}
_STATS_LOCK = threading.Lock()


def _bump(name: str) -> None:
    with _STATS_LOCK:
        STATS[name] += 1


def plan_timeout(plan: dict) -> float:
    """Hard limit of one worker, scaled with the plan (a very long history legitimately runs
    for minutes; the per-operation limits are the step budget and the CPU-time backstop)."""
    n = len(plan.get("ops") or [])
    return 600.0 + 0.5 * n


HANG_CONFIRM_FACTOR = 20


def _wall_stalls(res: dict):
    """Operations ended by a limit: the step budget (hang:steps) or the CPU/real-time backstop."""
    return [(rec["i"], rec["op"]) for rec in res["history"] if rec.get("outcome", "").startswith("hang:")]


def execute_checked(plan: dict):
    """Run a plan; classify worker-level failures. Returns (result|None, violations).

    * a worker that dies or has to be killed is re-run; only if it ends the same way again,
      *inside the same call into the system under test* (write-ahead markers), is that a
      violation attributed to the operation -- anything else is a failure of the machinery;
    * an operation stopped by a limit -- the calibrated step budget (hang:steps) or the CPU-time /
      real-time backstop (hang:wall) -- is only believed if it does not finish either when the
      whole plan is run again with 20x the limits; otherwise that re-run is the result. The
      budgets are calibrated on ordinary schemas; an accepted schema may legitimately cost far
      more (optimization mode unrolls arrays: a 255-element array of a 68-level chain of
      messages, inlined into 231 enclosing messages, is 112 MB of Go and 50 s of CPU), and
      neither that nor machine load may raise an alarm. An endless loop fails at any factor."""
    t = plan_timeout(plan)
    r = runner.run_plan(plan, timeout=t)
    if r["status"] != "ok":
        _bump("worker_retries")
        r2 = runner.run_plan(plan, timeout=2 * t)
        if r2["status"] != "ok":
            if r2.get("inside") and r2.get("inside") == r.get("inside") and r2["status"] == r["status"]:
                idx, label = r2["inside"]
                what = "hang:hard" if r2["status"] == "timeout" else "process-died:rc=%s" % r2.get("rc")
                return None, [{"sig": "%s@%s" % (what, label.split(" ")[0]), "op_index": int(idx), "op": label.split(" ")[0], "outcome": r2["status"], "msg": (r2.get("stderr") or "")[-600:]}]
            raise runner.HarnessFailure("worker %s twice outside any call into the system under test (%r / %r): %s" % (r2["status"], r.get("inside"), r2.get("inside"), (r2.get("stderr") or "")[-1500:]))
        r = r2  # e.g. an out-of-memory kill under load: the re-run is the execution
    res = r["result"]
    stalls = _wall_stalls(res)
    if stalls:
        _bump("wall_stalls_seen")
        p2 = copy.deepcopy(plan)
        p2["wall_factor"] = HANG_CONFIRM_FACTOR
        p2["budget_factor"] = HANG_CONFIRM_FACTOR
        r3 = runner.run_plan(p2, timeout=3 * t + 2 * HANG_CONFIRM_FACTOR * 25.0 * len(stalls))
        if r3["status"] != "ok":
            raise runner.HarnessFailure("confirmation run of a wall-clock stall %s: %s" % (r3["status"], (r3.get("stderr") or "")[-800:]))
        if _wall_stalls(r3["result"])[:1] == stalls[:1]:
            _bump("wall_stalls_confirmed")
        else:
            _bump("wall_stalls_unconfirmed")
        res = r3["result"]
    return res, []


def run_seed(prop: str, seed: int, gold: Goldens):
    mode = "c09" if prop == "C09" else "c18"
    t0 = time.monotonic()
    plan0, keys = gen_compiler.gen_plan(seed, mode, getattr(gold, "scale", 1))
    out = {"seed": seed, "violations": [], "stats": {}, "execs": []}
    goldens = gold.get(seed, keys) if (prop == "C18" and keys) else {}
    for k, g in goldens.items():
        if g.get("disagree"):
            out["violations"].append(
                {"sig": "golden-disagree", "op_index": -1, "op": "golden", "outcome": "", "key": k, "detail": json.dumps(g["disagree"], sort_keys=True)[:600], "plan": None, "request": keys[k], "batch_requests": {b: keys[b] for b in g.get("batch", []) if b in keys} or None}
            )
    res0, vs = execute_checked(plan0)
    phases = [("fault-free", plan0, res0, vs)]
    if res0 is not None:
        faults = gen_compiler.gen_faults(seed, plan0, res0)
        if faults:
            plan1 = dict(plan0)
            plan1["faults"] = faults
            res1, vs1 = execute_checked(plan1)
            phases.append(("faulted", plan1, res1, vs1))
    for name, plan, res, worker_vs in phases:
        vs = list(worker_vs)
        compared = []
        if res is not None:
            v2, compared = judge(prop, plan, res, goldens)
            vs.extend(v2)
            if prop == "C09" and name == "faulted" and res0 is not None:
                vs.extend(oracles.c09_silent_failures(res0, res))
        checked = []
        for v in vs:
            if v["sig"].startswith("HARNESS:"):
                raise runner.HarnessFailure("seed %d: %s" % (seed, v["sig"]))
            v = dict(v)
            v["plan"] = plan
            v["phase"] = name
            if prop == "C18" and v.get("key"):
                v["golden"] = goldens.get(v["key"])
                v["request"] = keys.get(v["key"])
            checked.append(v)
        out["violations"].extend(checked)
        out["execs"].append({"phase": name, "res": summarize(res, compared, plan) if res is not None else None, "digest": runner.digest(res) if res is not None else None})
    out["wall_s"] = time.monotonic() - t0
    out["nkeys"] = len(keys)
    out["knob_off"] = not plan0.get("knob_cache", True)
    out["hashseed"] = plan0.get("hashseed")
    return out


def summarize(res: dict, compared, plan=None):
    """Compact per-execution statistics for evidence (no large payloads)."""
    matrix = {}
    if plan is not None:
        for rec in res["history"]:
            if rec["op"] == "render" and rec.get("outcome") == "ok" and rec["i"] < len(plan["ops"]):
                op = plan["ops"][rec["i"]]
                k = "%s%s%s%s" % (op.get("lang"), " -O" if op.get("opt") else "", " -F" if op.get("filter") else "", (" --endian " + op.get("endian")) if op.get("opt") and op.get("endian", "both") != "both" else "")
                matrix[k] = matrix.get(k, 0) + 1
            if rec["op"] == "cli" and rec.get("outcome") == "ok" and rec["i"] < len(plan["ops"]):
                argv = plan["ops"][rec["i"]].get("argv") or []
                if argv and argv[0] in ("c", "go", "py"):
                    k = "cli %s%s%s%s" % (argv[0], " -O" if "-O" in argv else "", " -F" if "-F" in argv else "", " --endian" if "--endian" in argv else "")
                    matrix[k] = matrix.get(k, 0) + 1
    ops = 0
    sysops = 0
    outcomes = {}
    faults = {}
    planned = 0
    tuples = set()
    probes = dict(res.get("probes") or {})
    maxfrac = 0.0
    seen_fault = seen_fail = seen_tamper = seen_edit = False
    for rec in res["history"]:
        ops += 1
        # history probes: what had happened in this process / on this disk before a compile
        if rec["op"] == "tamper" and rec.get("outcome") == "ok":
            seen_tamper = True
            probes["tamper_" + rec.get("how", "?")] = probes.get("tamper_" + rec.get("how", "?"), 0) + 1
        if rec.get("after_crash"):
            probes["handlers_ran_after_injected_kill"] = probes.get("handlers_ran_after_injected_kill", 0) + 1
        if rec["op"] == "write":
            seen_edit = True
            probes["edit_on_disk"] = probes.get("edit_on_disk", 0) + 1
        if rec["op"] == "introspect" and rec.get("outcome") == "ok":
            probes["introspect"] = probes.get("introspect", 0) + 1
        if rec["op"] in ("render", "cli") and rec.get("outcome") == "ok" and not rec.get("fired"):
            for flag, name in ((seen_fault, "compile_after_fault_or_crash"), (seen_fail, "compile_after_failed_compile"), (seen_tamper, "compile_after_tamper"), (seen_edit, "compile_after_edit")):
                if flag:
                    probes[name] = probes.get(name, 0) + 1
        if seen_fault and not rec.get("fired") and rec["op"] in ("parse", "parse_string", "lint", "render", "cli") and rec.get("outcome") not in ("skipped", None) and not str(rec.get("outcome")).startswith(("hang", "internal")):
            # bounded liveness after faults stop: the operation completed within its step budget
            probes["sysop_completed_after_faults_stopped"] = probes.get("sysop_completed_after_faults_stopped", 0) + 1
        if rec.get("fired"):
            seen_fault = True
        if rec["op"] in ("parse", "parse_string", "cli", "render") and rec.get("outcome", "ok") not in ("ok", "skipped"):
            seen_fail = True
        if rec["op"] == "restart":
            seen_fail = False  # in-memory history is gone; the disk history stays
        if rec["op"] in ("parse", "parse_string", "lint", "render", "cli") and rec.get("outcome") != "skipped":
            sysops += 1
            oc = rec.get("outcome", "").split("@")[0]
            occ = oc.split(":")[0] if not oc.startswith("parser_error") else oc
            outcomes[occ] = outcomes.get(occ, 0) + 1
            if rec.get("budget"):
                maxfrac = max(maxfrac, rec.get("steps", 0) / rec["budget"])
            planned += rec.get("planned", 0)
            seams = rec.get("seams") or []
            for f in rec.get("fired") or []:
                name = f["kind"] + ("-power" if f.get("power") else "")
                faults[name] = faults.get(name, 0) + 1
                depth = seams[: f["call"]].count("open_r")
                tuples.add("%s|d%d|%s|%s|%s" % (rec["op"], depth, f["seam"], name, occ))
                if f["seam"] == "stat" and f["kind"] == "ENOENT":
                    probes["toctou_vanish_hit"] = probes.get("toctou_vanish_hit", 0) + 1
                if f["seam"] in ("open_w", "write", "close_w") and seams[: f["call"]].count("close_w") >= 1:
                    probes["fault_between_c_and_h"] = probes.get("fault_between_c_and_h", 0) + 1
            if not (rec.get("fired")) and occ not in ("ok",):
                tuples.add("%s|%s" % (rec["op"], oc))
            if oc == "parser_error:CyclicImport":
                probes["cyclic_import_seen"] = probes.get("cyclic_import_seen", 0) + 1
            if oc == "parser_error:DuplicatedImport":
                probes["duplicated_import_seen"] = probes.get("duplicated_import_seen", 0) + 1
            if "InMessageUnsupported" in oc or "InEnumUnsupported" in oc:
                probes["decl_in_forbidden_scope"] = probes.get("decl_in_forbidden_scope", 0) + 1
            if oc == "parser_error:CalculationExpressionError":
                probes["calc_expression_error"] = probes.get("calc_expression_error", 0) + 1
    return {
        "ops": ops,
        "sysops": sysops,
        "outcomes": outcomes,
        "faults": faults,
        "planned_faults": planned,
        "tuples": sorted(tuples),
        "probes": probes,
        "tripwires": res.get("tripwires") or {},
        "restarts": res.get("restarts", 0),
        "steps": res.get("total_steps", 0),
        "budget_max_fraction": maxfrac,
        "compared": compared,
        "render_matrix": matrix,
    }


# ---------------------------------------------------------------- minimising
def judge_full(prop: str, plan: dict, goldens):
    """Run a plan and return every violation signature it shows (used by the
    minimiser and by replay). For C09 the silent-failure oracle needs the
    fault-free twin of the plan as well."""
    res, wvs = execute_checked(plan)
    if res is None:
        return [v["sig"] for v in wvs], wvs
    vs, _ = judge(prop, plan, res, goldens or {})
    if prop == "C09" and plan.get("faults"):
        p0 = dict(plan)
        p0["faults"] = []
        res0, _ = execute_checked(p0)
        if res0 is not None:
            vs = vs + oracles.c09_silent_failures(res0, res)
    return [v["sig"] for v in vs], vs


def reproduces(prop: str, plan: dict, sig: str, goldens) -> bool:
    sigs, _ = judge_full(prop, plan, goldens)
    return sig in sigs


def minimise(prop: str, v: dict, max_seconds: float = 120.0) -> dict:
    """ddmin over ops, then faults, then (C09) the text the failing op consumed."""
    plan = copy.deepcopy(v["plan"])
    sig = v["sig"]
    goldens = {v["key"]: v["golden"]} if v.get("key") and v.get("golden") else {}
    budget = Budget(max_calls=400, max_seconds=max_seconds)

    def with_ops(ops, faults=None):
        p = dict(plan)
        # faults are addressed by op index: re-index through a stable id
        idmap = {op["_id"]: i for i, op in enumerate(ops)}
        p["ops"] = ops
        fs = []
        for f in faults if faults is not None else plan["faults"]:
            if f["_opid"] in idmap:
                g = dict(f)
                g["op"] = idmap[f["_opid"]]
                fs.append(g)
        p["faults"] = fs
        return p

    for i, op in enumerate(plan["ops"]):
        op["_id"] = i
    for f in plan["faults"]:
        f["_opid"] = f["op"]
    structural = ("write", "mkdir", "symlink", "link", "chdir", "tamper") if prop == "C18" else ()
    ops = ddmin(plan["ops"], lambda cand: reproduces(prop, with_ops(cand), sig, goldens), budget, keep=lambda op: op["op"] in structural)
    plan = with_ops(ops)
    if plan["faults"] and budget.ok():
        fl = ddmin(plan["faults"], lambda cand: reproduces(prop, with_ops(ops, cand), sig, goldens), budget)
        plan = with_ops(ops, fl)
    if prop == "C09" and budget.ok():
        # shrink the schema text involved: every file of the image, and inline texts
        files = plan["fs"]["files"]
        for path in sorted(files, key=lambda p: -len(files[p])):
            if not budget.ok():
                break
            if not path.endswith(".bitproto") or len(files[path]) < 40:
                continue

            def test(text, path=path):
                p = copy.deepcopy(plan)
                p["fs"]["files"][path] = text
                return reproduces(prop, p, sig, goldens)

            files[path] = shrink_text(files[path], test, budget)
        for k, op in enumerate(plan["ops"]):
            if not budget.ok():
                break
            if op["op"] in ("parse_string", "write") and len(op.get("text", "")) >= 40:

                def test2(text, k=k):
                    p = copy.deepcopy(plan)
                    p["ops"][k]["text"] = text
                    return reproduces(prop, p, sig, goldens)

                op["text"] = shrink_text(op["text"], test2, budget)
        # drop files nobody needs
        for path in sorted(files):
            if not budget.ok():
                break
            p = copy.deepcopy(plan)
            del p["fs"]["files"][path]
            p["fs"]["hardlinks"] = {a: b for a, b in p["fs"].get("hardlinks", {}).items() if b != path and a != path}
            budget.tick()
            if reproduces(prop, p, sig, goldens):
                plan = p
                files = plan["fs"]["files"]
    for op in plan["ops"]:
        op.pop("_id", None)
    for f in plan["faults"]:
        f.pop("_opid", None)
    out = dict(v)
    out["plan"] = plan
    out["minimise_calls"] = budget.calls
    # point the report at the operation of the *minimised* plan
    _, vs = judge_full(prop, plan, goldens)
    for w in vs:
        if w["sig"] == sig:
            out["op_index"] = w["op_index"]
            out["msg"] = w.get("msg", out.get("msg"))
            out["tb"] = w.get("tb", out.get("tb"))
            if w.get("detail"):
                out["detail"] = w["detail"]
            break
    return out


def write_replay(prop: str, v: dict, minimised: bool) -> str:
    os.makedirs(REPLAYS, exist_ok=True)
    import hashlib

    hid = hashlib.sha256((v["sig"] + json.dumps(v.get("plan"), sort_keys=True)).encode()).hexdigest()[:8]
    seed = (v.get("plan") or {}).get("seed", "x")
    path = os.path.join(REPLAYS, "%s-%s-%s%s.json" % (prop, seed, hid, "" if minimised else "-full"))
    doc = {
        "property": prop,
        "world": "compiler",
        "signature": v["sig"],
        "phase": v.get("phase"),
        "op_index": v.get("op_index"),
        "detail": v.get("detail") or v.get("msg"),
        "traceback": v.get("tb"),
        "minimised": minimised,
        "plan": v.get("plan"),
        "golden": v.get("golden"),
        "key": v.get("key"),
        "request": v.get("request"),
        "batch_requests": v.get("batch_requests"),
        "golden_base": int(os.environ.get("VERIF_SEED", "1") or 1),
    }
    with open(path, "w") as f:
        json.dump(doc, f, indent=1, sort_keys=True)
    return path


def replay(prop: str, path: str):
    with open(path) as f:
        doc = json.load(f)
    if doc.get("plan") is None:
        # golden-disagree: recompute the goldens of the same batch (same keys compiled together,
        # hence the same hash seeds, ASLR settings and order as in the failing run)
        g = Goldens()
        g.base = int(doc.get("golden_base") or g.base)
        batch = doc.get("batch_requests") or {doc["key"]: doc["request"]}
        res = g.get(0, batch)
        bad = bool(res[doc["key"]].get("disagree"))
        return bad, doc["signature"], [doc["signature"]] if bad else []
    goldens = {}
    if doc.get("key") and doc.get("request"):
        # the golden is recomputed from the tree as it is now (a stored hash of generated text
        # would make the replay "reproduce" for ever after any legitimate change of the output)
        goldens = Goldens().get(0, {doc["key"]: doc["request"]})
        if goldens[doc["key"]].get("disagree"):
            return doc["signature"] == "golden-disagree", doc["signature"], ["golden-disagree"]
    elif doc.get("key") and doc.get("golden"):
        goldens = {doc["key"]: doc["golden"]}
    sigs, _ = judge_full(prop, doc["plan"], goldens)
    if doc.get("signature_regex"):
        # (a defect that returns with another innermost frame is the same defect)
        import re

        return any(re.search(doc["signature_regex"], s_) for s_ in sigs), doc["signature"], sigs
    return doc["signature"] in sigs, doc["signature"], sigs


# ------------------------------------------------------- single-fault sweeps
def sweep_plan(seed: int):
    """A small multi-file build: CLI to C (two output files), Python and Go."""
    from .prng import Rng

    rng = Rng(seed, "sweep")
    proj = gen_compiler.generated_project(rng.sub("p"), "pa") if rng.chance(0.6) else gen_compiler.corpus_project(rng.sub("p"), "pa")
    img = {"dirs": ["/w"], "files": {}, "symlinks": {}, "hardlinks": {}, "cwd": "/w/pa"}
    gen_compiler.project_fs(proj, img)
    main = proj.main
    ops = [
        {"op": "cli", "argv": ["c", main, "out", "-q"], "outdir_abs": "/w/pa/out"},
        {"op": "cli", "argv": ["py", "/w/pa/" + main, "/w/pa/out"], "outdir_abs": "/w/pa/out"},
        {"op": "parse", "sid": 0, "path": "./" + main, "trad": False},
        {"op": "render", "sid": 0, "lang": "go", "outdir": "out", "outdir_abs": "/w/pa/out", "opt": False, "filter": None, "endian": "both"},
        {"op": "cli", "argv": ["c", main, "out"], "outdir_abs": "/w/pa/out"},
    ]
    return {"world": "compiler", "mode": "c09", "seed": seed, "hashseed": seed % 1000003 + 1, "knob_cache": True, "fs": img, "ops": ops, "faults": []}


def single_fault_sweep(prop: str, seeds, jobs: int):
    """Every file-system call of every operation of a build x every applicable fault kind
    (one fault per execution). An aid to placement next to the seeded search."""
    from .simfs import FAULTS_BY_CALL

    jobs_list = []
    bases = []
    for seed in seeds:
        plan0 = sweep_plan(seed)
        res0, vs0 = execute_checked(plan0)
        if res0 is None:
            raise runner.HarnessFailure("single-fault sweep: the fault-free base build of seed %d did not run: %r" % (seed, vs0))
        bases.append((plan0, res0))
        for rec in res0["history"]:
            for n, sk in enumerate(rec.get("seams") or [], start=1):
                kinds = [{"kind": k} for k in FAULTS_BY_CALL.get(sk, [])] + [{"kind": "crash", "power": False}, {"kind": "crash", "power": True, "tear": 0x6C}]
                for f in kinds:
                    f = dict(f, op=rec["i"], call=n)
                    if sk == "write":
                        f["frac"] = 0.5
                    jobs_list.append((len(bases) - 1, f))

    def run_one(job):
        bi, f = job
        plan0, res0 = bases[bi]
        p1 = dict(plan0)
        p1["faults"] = [f]
        res1, wvs = execute_checked(p1)
        if res1 is None:
            return [dict(v, plan=p1, phase="sweep") for v in wvs], 0
        vs = oracles.c09_violations(p1, res1) + oracles.c09_cli_rules(p1, res1) + oracles.c09_silent_failures(res0, res1)
        fired = sum(len(rec.get("fired") or []) for rec in res1["history"])
        for v in vs:
            v["plan"] = p1
            v["phase"] = "sweep"
        return vs, fired

    out = runner.pmap(run_one, jobs_list, jobs)
    violations = [v for vs, _ in out for v in vs]
    fired = sum(n for _, n in out)
    return {"base_plans": len(bases), "single_fault_executions": len(jobs_list), "faults_fired": fired}, violations


# ------------------------------------------------------------------ plumbing
def new_context(prop: str, tier: str = "quick"):
    g = Goldens()
    g.scale = 2 if tier == "thorough" else 1
    return g


def simfs_fidelity():
    """Differential self-test of the file-system stub against the real kernel:
    the same scripted situations on SimFS and in a real scratch directory must
    give the same result or the same OSError subclass/errno."""
    import errno
    import shutil
    import tempfile

    from .simfs import SimFS

    top = tempfile.mkdtemp(prefix="verif-fid-", dir=runner.tmp_dir())
    try:
        real = os.path.join(top, "w")
        os.makedirs(os.path.join(real, "p", "out"))
        os.makedirs(os.path.join(real, "p", "sub"))
        with open(os.path.join(real, "p", "a.bitproto"), "w") as f:
            f.write("proto a\r\nx\ry\n")
        os.symlink("a.bitproto", os.path.join(real, "p", "a_link"))
        os.link(os.path.join(real, "p", "a.bitproto"), os.path.join(real, "p", "a_hard"))
        os.symlink("loop2", os.path.join(real, "p", "loop1"))
        os.symlink("loop1", os.path.join(real, "p", "loop2"))
        os.symlink(os.path.join(real, "p"), os.path.join(real, "ln"))
        os.symlink("nowhere", os.path.join(real, "p", "dangling"))
        fs = SimFS()
        fs.h_mkdir("/w/p/out")
        fs.h_mkdir("/w/p/sub")
        fs.h_write("/w/p/a.bitproto", "proto a\r\nx\ry\n")
        fs.h_symlink("a.bitproto", "/w/p/a_link")
        fs.h_link("/w/p/a.bitproto", "/w/p/a_hard")
        fs.h_symlink("loop2", "/w/p/loop1")
        fs.h_symlink("loop1", "/w/p/loop2")
        fs.h_symlink("/w/p", "/w/ln")
        fs.h_symlink("nowhere", "/w/p/dangling")
        fs.h_chdir("/w/p")
        fs.begin_op({})
        os_cwd = os.getcwd()
        os.chdir(os.path.join(real, "p"))

        def R(p):
            return p if not p.startswith("/w") else real + p[2:]

        def outcome(fn):
            try:
                v = fn()
                return ("ok", v)
            except OSError as e:
                return (type(e).__name__, errno.errorcode.get(e.errno), e.filename is None)

        def rd(o, p):
            with o(p) as f:
                return f.read()

        def wr(o, p):
            with o(p, "w") as f:
                f.write("data")
            return True

        reads = ["a.bitproto", "./a.bitproto", "a_link", "a_hard", "/w/ln/a.bitproto", "/w/ln/../p/a.bitproto", "out/../a.bitproto", "sub/../a.bitproto", "nope", "", ".", "/", "sub", "sub/", "a.bitproto/", "a.bitproto/x", "loop1", "dangling", "nodir/x", "/w/ln", "x" * 300, "/w/p/" + "y/" * 2100]
        writes = ["out/o.c", "/w/p/out/o2.c", "/w/ln/out/o3.c", "nodir/o.c", "out", "out/", "a.bitproto/x", "loop1", "", "dangling", "sub/../out/o4.c", "x" * 300]
        pairs = [("a.bitproto", "a_link"), ("a.bitproto", "a_hard"), ("a.bitproto", "/w/ln/a.bitproto"), ("a.bitproto", "sub"), ("a.bitproto", "nope"), ("nope", "a.bitproto"), ("loop1", "a.bitproto"), ("a.bitproto", "out/../a.bitproto"), (".", "/w/ln"), ("dangling", "a.bitproto"), ("sub/", "sub")]
        bad = []
        n = 0
        for p in reads:
            a, b = outcome(lambda: rd(fs.open, p)), outcome(lambda: rd(open, R(p)))
            n += 1
            if a != b:
                bad.append(("read", p, a, b))
        for p in writes:
            a, b = outcome(lambda: wr(fs.open, p)), outcome(lambda: wr(open, R(p)))
            n += 1
            if a != b:
                bad.append(("write", p, a, b))
        for x, y in pairs:
            a, b = outcome(lambda: fs.samefile(x, y)), outcome(lambda: os.path.samefile(R(x), R(y)))
            n += 1
            if a != b:
                bad.append(("samefile", (x, y), a, b))
        os.chdir(os_cwd)
        if bad:
            raise runner.HarnessFailure("SimFS fidelity self-test failed: %r" % (bad[:5],))
        return n
    finally:
        try:
            os.chdir(VERIF)
        except OSError:
            pass
        shutil.rmtree(top, ignore_errors=True)


def _fs_scenario():
    """The same script of file-system calls, executed once on SimFS (inside a
    window) and once on the real kernel; returns the list of outcomes."""
    import errno
    import glob
    import os
    import tempfile
    from pathlib import Path

    out = []

    def rec(name, fn):
        try:
            v = fn()
            out.append((name, "ok", v))
        except OSError as e:
            # (whether the error names a file is compared too: handlers format error.filename)
            out.append((name, type(e).__name__, errno.errorcode.get(e.errno), e.filename is None))
        except (ValueError, TypeError) as e:
            # what CPython's own layers raise for misuse (closed file, bad mode, wrong direction)
            out.append((name, type(e).__name__, None))

    def w(path, mode, text):
        with open(path, mode) as f:
            f.write(text)
        return True

    rec("append", lambda: (w("out/a.txt", "w", "one\n"), w("out/a.txt", "a", "two\n"), open("out/a.txt").read())[2])
    rec("excl_existing", lambda: w("out/a.txt", "x", "z"))
    rec("excl_new", lambda: (w("out/b.txt", "x", "z"), open("out/b.txt").read())[1])
    rec("replace", lambda: (w("out/t.tmp", "w", "new"), os.replace("out/t.tmp", "out/a.txt"), open("out/a.txt").read(), os.path.exists("out/t.tmp"))[2:])
    rec("rename_missing", lambda: os.rename("out/none", "out/x"))
    rec("rename_onto_dir", lambda: os.rename("out/a.txt", "sub"))
    rec("mkdir_existing", lambda: os.mkdir("out"))
    rec("makedirs_exist_ok", lambda: (os.makedirs("out/deep/er", exist_ok=True), os.makedirs("out/deep/er", exist_ok=True), os.path.isdir("out/deep/er"))[2])
    rec("makedirs_over_file", lambda: os.makedirs("a.bitproto/x", exist_ok=True))
    rec("unlink_missing", lambda: os.unlink("out/none"))
    rec("unlink_dir", lambda: os.unlink("sub"))
    rec("rmdir_nonempty", lambda: os.rmdir("out"))
    rec("listdir", lambda: sorted(os.listdir(".")))
    rec("listdir_file", lambda: os.listdir("a.bitproto"))
    rec("scandir", lambda: sorted((e.name, e.is_dir(), e.is_file(), e.is_symlink()) for e in os.scandir(".")))
    rec("glob", lambda: sorted(glob.glob("*.bitproto")))
    rec("getsize", lambda: os.path.getsize("a.bitproto"))
    rec("exists_variants", lambda: (os.path.exists("a_link"), os.path.exists("dangling"), os.path.lexists("dangling"), os.path.islink("a_link"), os.path.isfile("a_link"), os.path.isdir("/w/ln" if os.getcwd().startswith("/w") else "../ln")))
    rec("realpath_eq", lambda: os.path.realpath("a_link") == os.path.realpath("a.bitproto"))
    rec("realpath_hard", lambda: os.path.realpath("a_hard") == os.path.realpath("a.bitproto"))
    rec("stat_ino_eq", lambda: (os.stat("a_hard").st_ino == os.stat("a.bitproto").st_ino, os.stat("a_link").st_ino == os.stat("a.bitproto").st_ino, os.lstat("a_link").st_ino == os.stat("a.bitproto").st_ino))
    rec("mtime_order", lambda: (w("out/m1", "w", "1"), w("out/m2", "w", "2"), os.path.getmtime("out/m2") >= os.path.getmtime("out/m1"))[2])
    rec("pathlib", lambda: (Path("out/p.txt").write_text("pp"), Path("out/p.txt").read_text(), Path("out").is_dir(), Path("nope").exists())[1:])
    rec("pathlib_missing", lambda: Path("nope/x").read_text())

    def mkst():
        fd, name = tempfile.mkstemp(dir="out", suffix=".tmp")
        with os.fdopen(fd, "w") as f:
            f.write("tmp")
            f.flush()
            os.fsync(f.fileno())
        os.replace(name, "out/final")
        return open("out/final").read(), [n for n in os.listdir("out") if n.endswith(".tmp")]

    rec("mkstemp_fsync_replace", mkst)

    def lowlevel():
        fd = os.open("out/low", os.O_WRONLY | os.O_CREAT | os.O_TRUNC, 0o644)
        os.write(fd, b"abc")
        os.close(fd)
        fd = os.open("out/low", os.O_RDONLY)
        d = os.read(fd, 10)
        os.close(fd)
        return d.decode()

    rec("os_open_write_read", lowlevel)
    rec("os_open_excl", lambda: os.open("out/low", os.O_WRONLY | os.O_CREAT | os.O_EXCL))
    rec("os_open_missing", lambda: os.open("out/none2", os.O_WRONLY))
    rec("abspath_norm", lambda: os.path.abspath("sub/../a.bitproto").endswith("/p/a.bitproto"))
    rec("chdir_file", lambda: os.chdir("a.bitproto"))
    rec("chdir_missing", lambda: os.chdir("nope"))
    rec("utime", lambda: (os.utime("a.bitproto", (5, 5)), int(os.path.getmtime("a.bitproto")))[1])

    # ---- file-object idioms (the layers above the raw file are CPython's own; these steps pin
    # the raw layer, open-mode handling and descriptor functions to the real kernel's behaviour)
    import io
    import shutil

    def textio():
        w("out/t1", "w", "hello\nworld\ncaf\u00e9\n")
        with open("out/t1") as f:
            a = f.readline()
            f.seek(0)
            b = f.tell()
            c = f.read()
            d = f.newlines
            e = type(f.buffer).__name__, type(f.buffer.raw).__name__ != "", f.mode, f.name, f.readable(), f.writable(), f.seekable(), f.isatty()
        with open("out/t1") as f:
            g = next(f), [x for x in f]
        return a, b, c, d, e, g

    rec("text_seek_tell_iter", textio)

    def binio():
        with open("out/t1", "rb") as f:
            buf = bytearray(4)
            n = f.readinto(buf)
            p = f.peek(2)[:2]
            r1 = f.read1(3)
            f.seek(-3, 2)
            tail = f.read()
            pos = f.tell()
        return n, bytes(buf), p, r1, tail, pos

    rec("binary_readinto_peek", binio)

    def update_modes():
        with open("out/u1", "w+") as f:
            f.write("abcdef\n")
            f.seek(0)
            a = f.read()
        with open("out/u1", "r+") as f:
            f.seek(2)
            f.write("XY")
            f.seek(0)
            b = f.read()
        with open("out/u1", "a+") as f:
            f.write("tail\n")
            f.seek(0)
            c = f.read()
        with open("out/u1", "r+b") as f:
            f.truncate(3)
            f.seek(0, 2)
            d = f.tell()
        os.truncate("out/u1", 5)
        with open("out/u1", "rb") as f:
            e = f.read()
        return a, b, c, d, e

    rec("update_modes_truncate", update_modes)
    rec("r_plus_missing", lambda: open("out/none_rplus", "r+"))
    rec("write_to_reader", lambda: open("out/t1").write("x"))
    rec("read_from_writer", lambda: open("out/w_only", "w").read())

    def closed_ops():
        f = open("out/t1")
        f.close()
        f.close()
        return f.closed, f.read()

    rec("read_after_close", closed_ops)
    rec("bad_mode", lambda: open("out/t1", "rw"))
    rec("bad_mode2", lambda: open("out/t1", "rbt"))
    rec("binary_with_encoding", lambda: open("out/t1", "rb", encoding="utf-8"))
    rec("unbuffered_text", lambda: open("out/t1", "r", buffering=0))

    def newlines_enc():
        with open("out/nl", "wb") as f:
            f.write(b"a\r\nb\rc\n\xff\n")
        with open("out/nl", newline="", encoding="latin-1") as f:
            a = f.read()
        with open("out/nl", encoding="utf-8", errors="replace") as f:
            b = f.read()
        with open("out/nl2", "w", newline="\r\n") as f:
            f.write("x\ny\n")
        with open("out/nl2", "rb") as f:
            c = f.read()
        return a, b, c

    rec("newline_and_encoding", newlines_enc)
    rec("strict_decode_error", lambda: open("out/nl", encoding="utf-8").read())

    def buffering():
        f = open("out/buf", "w")
        f.write("x" * 10)
        a = os.path.getsize("out/buf")  # still in the userspace buffer
        f.flush()
        b = os.path.getsize("out/buf")
        f.write("y" * 100000)  # larger than every buffer: written through
        c = os.path.getsize("out/buf") >= 100000
        f.close()
        d = os.path.getsize("out/buf")
        with open("out/buf0", "wb", buffering=0) as g:
            n = g.write(b"abc")
            e = os.fstat(g.fileno()).st_size
        return a, b, c, d, n, e

    rec("buffering_visibility", buffering)

    def lowlevel2():
        fd = os.open("out/ll", os.O_RDWR | os.O_CREAT, 0o644)
        os.write(fd, b"0123456789")
        os.lseek(fd, 2, 0)
        a = os.read(fd, 3)
        os.ftruncate(fd, 4)
        os.lseek(fd, 0, 0)
        b = os.read(fd, 100)
        st = os.fstat(fd).st_size
        os.close(fd)
        fd = os.open("out/ll", os.O_WRONLY | os.O_APPEND)
        os.write(fd, b"zz")
        os.close(fd)
        with open("out/ll", "rb") as f:
            c = f.read()
        return a, b, st, c

    rec("os_rdwr_lseek_ftruncate_append", lowlevel2)
    rec("os_close_twice", lambda: (lambda fd: (os.close(fd), os.close(fd)))(os.open("out/ll", os.O_RDONLY)))
    rec("os_open_dir_wronly", lambda: os.open("out", os.O_WRONLY))

    def dirfd():
        fd = os.open("out", os.O_RDONLY)
        try:
            a = os.stat("ll", dir_fd=fd).st_size
            b = sorted(e.name for e in os.scandir(fd))[:3]
            w("out/dfd_victim", "w", "v")
            os.unlink("dfd_victim", dir_fd=fd)
            c = os.path.exists("out/dfd_victim")
            os.mkdir("dfd_dir", dir_fd=fd)
            os.rmdir("dfd_dir", dir_fd=fd)
            d = os.path.exists("out/dfd_dir")
        finally:
            os.close(fd)
        return a, len(b), c, d

    rec("dir_fd_calls", dirfd)

    def shutils():
        os.makedirs("out/tree/a/b")
        w("out/tree/a/b/f1", "w", "1")
        w("out/tree/a/f2", "w", "22")
        shutil.copyfile("out/tree/a/f2", "out/tree/copy")
        shutil.copy2("out/tree/a/f2", "out/tree/copy2")
        shutil.copytree("out/tree/a", "out/tree2")
        shutil.move("out/tree/copy", "out/tree/moved")
        walked = sorted((d.replace(os.sep, "/"), sorted(ds), sorted(fs_)) for d, ds, fs_ in os.walk("out/tree"))
        a = open("out/tree2/b/f1").read(), open("out/tree/moved").read(), open("out/tree/copy2").read()
        shutil.rmtree("out/tree")
        shutil.rmtree("out/tree2")
        return a, walked, os.path.exists("out/tree"), os.path.exists("out/tree2")

    rec("shutil_copy_move_walk_rmtree", shutils)
    rec("rmtree_missing", lambda: shutil.rmtree("out/no_such_tree"))

    def temps():
        with tempfile.TemporaryDirectory(dir="out") as td:
            w(os.path.join(td, "z"), "w", "z")
            os.mkdir(os.path.join(td, "sub"))
            a = sorted(os.listdir(td))
        b = os.path.exists(td)
        with tempfile.NamedTemporaryFile("w+", dir="out", suffix=".nt") as f:
            f.write("named")
            f.flush()
            c = open(f.name).read()
            nm = f.name
        d = os.path.exists(nm)
        return a, b, c, d

    rec("tempfile_dir_and_named", temps)
    rec("replace_file_onto_nonempty_dir", lambda: (os.makedirs("out/ned/x", exist_ok=True), os.replace("a.bitproto", "out/ned"))[1])
    rec("replace_dir_onto_file", lambda: os.replace("sub", "out/ll"))
    rec("link_existing", lambda: os.link("a.bitproto", "out/ll"))
    rec("symlink_existing", lambda: os.symlink("a.bitproto", "out/ll"))
    rec("readlink_nonlink", lambda: os.readlink("a.bitproto"))
    rec("open_dir_read", lambda: open("out"))
    rec("open_dir_write", lambda: open("out", "w"))
    rec("open_trailing_slash_write", lambda: open("out/newfile/", "w"))
    rec("open_under_file", lambda: open("a.bitproto/x"))
    rec("open_under_file_w", lambda: open("a.bitproto/x", "w"))
    rec("open_missing_parent_w", lambda: open("nodir/x", "w"))
    rec("open_dangling_w", lambda: (w("dangling", "w", "dd"), open("nowhere").read())[1])
    rec("open_symlink_loop", lambda: (os.symlink("loop2", "loop1"), os.symlink("loop1", "loop2"), open("loop1"))[2])
    rec("stat_mode_bits", lambda: (oct(os.stat("a.bitproto").st_mode & 0o170000), oct(os.stat("out").st_mode & 0o170000), oct(os.lstat("a_link").st_mode & 0o170000)))
    rec("chmod_then_stat", lambda: (os.chmod("out/ll", 0o600), oct(os.stat("out/ll").st_mode & 0o777))[1])
    rec("samefile", lambda: (os.path.samefile("a.bitproto", "a_link"), os.path.samefile("a.bitproto", "a_hard"), os.path.samefile("a.bitproto", "out/ll")))
    rec("samefile_missing", lambda: os.path.samefile("a.bitproto", "nope"))
    rec("access", lambda: (os.access("a.bitproto", os.R_OK), os.access("nope", os.F_OK)))
    rec("getcwd_tail", lambda: os.getcwd().endswith("/p"))
    return out


def simfs_fidelity2():
    import shutil
    import tempfile

    from .seams import Tripwires, Window
    from .simfs import SimFS

    def build_real(real):
        os.makedirs(os.path.join(real, "p", "out"))
        os.makedirs(os.path.join(real, "p", "sub"))
        with open(os.path.join(real, "p", "a.bitproto"), "w") as f:
            f.write("proto a\n")
        os.symlink("a.bitproto", os.path.join(real, "p", "a_link"))
        os.link(os.path.join(real, "p", "a.bitproto"), os.path.join(real, "p", "a_hard"))
        os.symlink(os.path.join(real, "p"), os.path.join(real, "ln"))
        os.symlink("nowhere", os.path.join(real, "p", "dangling"))

    fs = SimFS()
    fs.h_mkdir("/w/p/out")
    fs.h_mkdir("/w/p/sub")
    fs.h_write("/w/p/a.bitproto", "proto a\n")
    fs.h_symlink("a.bitproto", "/w/p/a_link")
    fs.h_link("/w/p/a.bitproto", "/w/p/a_hard")
    fs.h_symlink("/w/p", "/w/ln")
    fs.h_symlink("nowhere", "/w/p/dangling")
    fs.h_chdir("/w/p")
    fs.begin_op({})
    tw = Tripwires()
    with Window(fs, tw):
        sim = _fs_scenario()
    top = tempfile.mkdtemp(prefix="verif-fid2-", dir=runner.tmp_dir())
    cwd = os.getcwd()
    try:
        real = os.path.join(top, "w")
        build_real(real)
        os.chdir(os.path.join(real, "p"))
        realres = _fs_scenario()
    finally:
        os.chdir(cwd)
        shutil.rmtree(top, ignore_errors=True)
    bad = [(a, b) for a, b in zip(sim, realres) if a != b]
    if bad or len(sim) != len(realres):
        raise runner.HarnessFailure("SimFS fidelity self-test (scenario) failed: %r" % (bad[:4],))
    return len(sim)


def selftest(prop: str, tier: str, seeds, jobs: int) -> dict:
    n = simfs_fidelity()
    m = simfs_fidelity2()
    return {"simfs_fidelity_cases": n + m}


def farm_phase(prop: str, seeds, jobs: int, n: int):
    """One long-lived process compiling n distinct schemas, then a sample again (the quick
    tier's share of the very long histories that the thorough tier mixes into its seeds)."""
    gold = Goldens()
    out = []
    info = {"farm_runs": 0, "farm_operations": 0, "farm_compared": 0}
    for seed in seeds:
        plan, keys = gen_compiler.gen_farm_plan(seed, "c18", n)
        goldens = gold.get(seed, keys)
        res, vs = execute_checked(plan)
        if res is not None:
            v2, compared = oracles.c18_violations(plan, res, goldens)
            vs = vs + v2
            info["farm_compared"] += len(compared)
            info["farm_operations"] += len(res["history"])
        info["farm_runs"] += 1
        for v in vs:
            v["plan"] = plan
            v["phase"] = "farm"
            if v.get("key"):
                v["golden"] = goldens.get(v["key"])
                v["request"] = keys.get(v["key"])
        out.extend(vs)
    return info, out


def extra_phase(prop: str, tier: str, seeds, jobs: int):
    """C09: single-fault sweeps over a few builds. C18 (quick): one build-farm history."""
    if prop == "C18":
        if tier != "quick":
            return {}, []
        info, vs = farm_phase(prop, seeds[:1], jobs, 300)
        return {"build_farm": info}, vs
    if prop != "C09":
        return {}, []
    k = 1 if tier == "quick" else 40
    info, violations = single_fault_sweep(prop, seeds[:k], jobs)
    return {"single_fault_sweeps": info}, violations


def evidence(prop, tier, base_seed, done, selftest_info, wall, t_runs, nviol, known_sigs, jobs):
    ops = sysops = steps = restarts = planned = 0
    faults, outcomes, probes, trip = {}, {}, {}, {}
    matrix = {}
    tuples = set()
    compared = set()
    ncompared = 0
    maxfrac = 0.0
    execs = 0
    knob_off = sum(1 for r in done if r.get("knob_off"))
    hashseeds = {r.get("hashseed") for r in done}
    phases = {"fault-free": 0, "faulted": 0}
    for r in done:
        for e in r["execs"]:
            s = e["res"]
            if s is None:
                continue
            execs += 1
            phases[e["phase"]] = phases.get(e["phase"], 0) + 1
            ops += s["ops"]
            sysops += s["sysops"]
            steps += s["steps"]
            restarts += s["restarts"]
            planned += s["planned_faults"]
            maxfrac = max(maxfrac, s["budget_max_fraction"])
            for d, src in ((faults, s["faults"]), (outcomes, s["outcomes"]), (probes, s["probes"]), (trip, s["tripwires"])):
                for k, v in src.items():
                    d[k] = d.get(k, 0) + v
            tuples.update(s["tuples"])
            for k, v in (s.get("render_matrix") or {}).items():
                matrix[k] = matrix.get(k, 0) + v
            for kid, hs in s["compared"]:
                ncompared += 1
                if hs:
                    compared.add((kid, hs))
    samples = []
    mode = "c09" if prop == "C09" else "c18"
    for r in done[:3]:
        plan, _ = gen_compiler.gen_plan(r["seed"], mode, 2 if tier == "thorough" else 1)
        samples.append(
            {
                "seed": r["seed"],
                "ops": [{k: (v if k != "text" else v[:120]) for k, v in op.items() if k not in ("outdir_abs",)} for op in plan["ops"][:14]],
                "schema_files": {p: t[:300] for p, t in list(plan["fs"]["files"].items())[:2]},
            }
        )
    common = {
        "runs": len(done),
        "executions": execs,
        "executions_by_phase": phases,
        "seeds": [r["seed"] for r in done[:50]],
        "runs_per_hour": int(len(done) / max(t_runs, 1e-6) * 3600),
        "jobs": jobs,
        "operations_total": ops,
        "sim_steps": steps,
        "faults_planned": planned,
        "faults_fired": faults,
        "outcome_classes": outcomes,
        "successful_renders_by_language_and_mode": matrix,
        "probes": probes,
        "tripwire_reads": trip,
        "restarts": restarts,
        "memo_knob_off_runs": knob_off,
        "distinct_hashseeds": len(hashseeds),
        "budget_max_fraction": round(maxfrac, 4),
        "selftest": selftest_info,
        "known_findings_seen": known_sigs,
        "components": {
            "real": ["bitproto lexer/parser/AST/linter/renderers/_main from /repo working tree", "ply", "CPython 3.12"],
            "stub": ["file system below the buffered layer (SimFS: directory tree, inodes, descriptors, raw file reads/writes; the buffering and text layers on top are CPython's own io classes)", "process exit (os._exit -> SimExit)", "stderr/stdout capture", "clocks/urandom/pid (tripwires)", "language server (represented by its parse_string call pattern)"],
        },
        "samples": samples,
    }
    if prop == "C09":
        cov = dict(common)
        cov.update(
            {
                "evaluations": sysops,
                "distinct_nontrivial": len(tuples),
                "rule": "seeded histories of compile operations over mutated/templated/random schema text on SimFS, each run once fault-free and once with a seeded fault plan aimed at recorded seam calls; a case is non-trivial when a fault actually fired in it or the input was rejected; distinct = distinct tuples (operation kind, import depth at the fault, seam kind, fault kind, outcome class) resp. (operation kind, rejection class)",
            }
        )
    else:
        cov = dict(common)
        cov.update(
            {
                "evaluations": ncompared,
                "distinct_nontrivial": len(compared),
                "rule": "every fault-free keyed compile/parse in a simulated long-lived process is compared byte-for-byte with goldens computed in fresh processes (two hash seeds, ASLR on/off, cwd/path style/lint varied, a sampled key recomputed alone); non-trivial = the compile had a non-empty in-process history; distinct = distinct (compile key, history signature) pairs",
                "goldens": None,
            }
        )
    return {
        "property_id": prop,
        "tier": tier,
        "seed": base_seed,
        "level": "exploration",
        "coverage": cov,
        "assumptions": [
            "SimFS models POSIX open/read/write/close/stat/getcwd semantics (differentially self-tested against the real kernel each run)",
            "process kill loses only userspace buffers; power loss may additionally lose or tear unsynced page-cache data",
            "pre-emption inside a compiler call is not explored (bitproto promises no thread safety)",
            "a clean batch is evidence, not proof",
        ],
        "wall_s": round(wall, 2),
        "violations": nviol,
    }
