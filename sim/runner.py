"""Runner: spawns one fresh interpreter per execution and merges results in
seed order (so the outcome is independent of the worker count).

Every execution is started as
    setarch <arch> -R env PYTHONHASHSEED=<plan.hashseed> /venv/bin/python -m sim.exec
ASLR off makes heap addresses (and so identity-hash dependent behaviour)
repeatable; the hash seed is part of the plan.
"""

import concurrent.futures
import hashlib
import json
import os
import platform
import shutil
import subprocess
import sys
import threading
import time

VERIF = os.path.dirname(os.path.dirname(os.path.abspath(__file__)))
PY = "/venv/bin/python"
REPO = (os.environ.get("VERIF_REPO") or "/repo").rstrip("/")
REPO_PATHS = REPO + "/compiler:" + REPO + "/lib/py"
ARCH = platform.machine()
SCRATCH = os.path.join(VERIF, "scratch")


class HarnessFailure(Exception):
    """The machinery failed (not the system under test). Exit status 2."""


def tree_hash() -> str:
    h = hashlib.sha256()
    for top in (REPO + "/compiler/bitproto", REPO + "/lib/py/bitprotolib", REPO + "/lib/c"):
        for d, dirs, files in sorted(os.walk(top)):
            dirs.sort()
            for f in sorted(files):
                if f.endswith((".py", ".c", ".h")):
                    p = os.path.join(d, f)
                    h.update(os.path.relpath(p, REPO).encode())  # content only: the same tree anywhere hashes alike
                    with open(p, "rb") as fh:
                        h.update(fh.read())
    return h.hexdigest()[:16]


def repo_commit() -> str:
    """HEAD of the tree under test plus '+dirty' if its working tree differs (informational)."""
    try:
        head = subprocess.run(["git", "-C", REPO, "rev-parse", "--short", "HEAD"], capture_output=True, text=True, timeout=20).stdout.strip()
        dirty = subprocess.run(["git", "-C", REPO, "status", "--porcelain", "--untracked-files=no"], capture_output=True, text=True, timeout=20).stdout.strip()
        return head + ("+dirty" if dirty else "")
    except Exception:
        return "?"


_PYCACHE = None
_LOCK = threading.Lock()
STALE_S = 6 * 3600


def _sweep_stale(prefixes) -> None:
    """Remove scratch entries nobody has touched for hours (left behind by killed runs).
    Entries in use by a concurrent check on another tree are recent and stay."""
    now = time.time()
    for top in (SCRATCH, os.path.join(SCRATCH, "tmp")):
        try:
            names = os.listdir(top)
        except OSError:
            continue
        for name in names:
            if name.startswith(prefixes):
                p = os.path.join(top, name)
                try:
                    if now - os.stat(p).st_mtime > STALE_S:
                        shutil.rmtree(p, ignore_errors=True)
                except OSError:
                    pass


def pycache_dir() -> str:
    """Byte-code cache keyed by the content of the tree's sources: never stale."""
    global _PYCACHE
    with _LOCK:
        if _PYCACHE is None:
            th = tree_hash()
            os.makedirs(SCRATCH, exist_ok=True)
            _sweep_stale(("pycache-", "verif-"))
            d = os.path.join(SCRATCH, "pycache-" + th)
            os.makedirs(d, exist_ok=True)
            os.utime(d)
            _PYCACHE = d
        return _PYCACHE


def tmp_dir() -> str:
    """Scratch space on the real file system (golden compiles, built shared objects):
    under /verif/scratch, never /tmp."""
    d = os.environ.get("VERIF_TMPDIR") or os.path.join(SCRATCH, "tmp")
    os.makedirs(d, exist_ok=True)
    return d


def child_env(hashseed, extra=None) -> dict:
    env = {
        "PATH": os.environ.get("PATH", "/usr/bin:/bin"),
        "PYTHONPATH": REPO_PATHS + ":" + VERIF,
        "PYTHONHASHSEED": str(int(hashseed) % 4294967296),
        "PYTHONPYCACHEPREFIX": pycache_dir(),
        "PYTHONUTF8": "1",
        "PYTHONNOUSERSITE": "1",
        "LC_ALL": "C.UTF-8",
        "LANG": "C.UTF-8",
        "HOME": "/nonexistent",
        "USER": "simuser",
        "LOGNAME": "simuser",
        "HOSTNAME": "simhost",
        "TERM": "dumb",
        "TMPDIR": tmp_dir(),
        "VERIF_REPO": REPO,
    }
    if extra:
        env.update(extra)
    return env


def run_plan(plan: dict, timeout: float = 300.0) -> dict:
    """Execute one plan in a fresh interpreter. Returns
    {"status": "ok", "result": ...} | {"status": "timeout", "inside": ...} | {"status": "died", "rc":..., "stderr":..., "inside": ...}
    ("inside": the call into the system under test the worker was in, from its write-ahead markers).
    Raises HarnessFailure for simulator errors."""
    from . import wal

    plan = dict(plan)
    plan["hard_timeout_s"] = timeout
    data = json.dumps(plan, sort_keys=True, separators=(",", ":"))
    cmd = [PY, "-X", "utf8", "-m", "sim.exec"]
    if not plan.get("aslr"):
        cmd = ["setarch", ARCH, "-R"] + cmd
    try:
        p = subprocess.run(
            cmd,
            input=data.encode(),
            stdout=subprocess.PIPE,
            stderr=subprocess.PIPE,
            env=child_env(plan.get("hashseed", 0), plan.get("env")),
            cwd=VERIF,
            timeout=timeout,
        )
    except subprocess.TimeoutExpired as e:
        return {"status": "timeout", "inside": wal.inside((e.stdout or b"").decode("utf-8", "replace")), "stderr": (e.stderr or b"").decode("utf-8", "replace")[-4000:]}
    except OSError as e:
        raise HarnessFailure("cannot start a worker (%s): %s" % (" ".join(cmd[:3]), e))
    err = p.stderr.decode("utf-8", "replace")
    if p.returncode == 3 or "HARNESS-ERROR" in err:
        raise HarnessFailure("worker reported: " + err[-2000:])
    line = None
    out = p.stdout.decode("utf-8", "replace")
    for l in out.splitlines():
        if l.startswith("RESULT "):
            line = l[7:]
    if p.returncode != 0 or line is None:
        if "setarch" in err and not out:
            raise HarnessFailure("setarch -R (ASLR off) is refused in this sandbox: " + err[-500:])
        return {"status": "died", "rc": p.returncode, "stderr": err[-4000:], "inside": wal.inside(out)}
    return {"status": "ok", "result": json.loads(line)}


def digest(obj) -> str:
    return hashlib.sha256(json.dumps(obj, sort_keys=True, separators=(",", ":")).encode()).hexdigest()


def pmap(fn, items, jobs: int, deadline=None):
    """Ordered parallel map with threads (the work is in subprocesses).
    Items whose start would be after `deadline` are skipped (None)."""
    out = [None] * len(items)

    stop = []

    def wrap(i):
        if stop or (deadline is not None and time.monotonic() > deadline):
            return i, None
        return i, fn(items[i])

    ex = concurrent.futures.ThreadPoolExecutor(max_workers=jobs)
    try:
        futs = [ex.submit(wrap, i) for i in range(len(items))]
        for f in concurrent.futures.as_completed(futs):
            i, r = f.result()
            out[i] = r
    except BaseException:
        # a failure of the machinery ends the batch now, not after the remaining seeds
        stop.append(1)
        ex.shutdown(wait=True, cancel_futures=True)
        raise
    ex.shutdown(wait=True)
    return out


def _cgroup_cpus():
    """CPU quota of this container (cgroup v2 cpu.max / v1 cfs quota), or None."""
    try:
        with open("/sys/fs/cgroup/cpu.max") as f:
            q, per = f.read().split()[:2]
        if q != "max":
            return max(1, int(int(q) / int(per)))
    except Exception:
        pass
    try:
        with open("/sys/fs/cgroup/cpu/cpu.cfs_quota_us") as f:
            q = int(f.read())
        with open("/sys/fs/cgroup/cpu/cpu.cfs_period_us") as f:
            per = int(f.read())
        if q > 0:
            return max(1, q // per)
    except Exception:
        pass
    return None


def jobs_default() -> int:
    if os.environ.get("VERIF_JOBS"):
        return max(1, int(os.environ["VERIF_JOBS"]))
    try:
        n = len(os.sched_getaffinity(0))
    except Exception:
        n = 8
    q = _cgroup_cpus()
    return max(1, min(n, q) if q else n)
