"""Runner: spawns one fresh interpreter per execution and merges results in
seed order (so the outcome is independent of the worker count).

Every execution is started as
    setarch <arch> -R env PYTHONHASHSEED=<plan.hashseed> /venv/bin/python -m sim.exec
ASLR off makes heap addresses (and so identity-hash dependent behaviour)
repeatable; the hash seed is part of the plan.
"""

import concurrent.futures
import hashlib
import json
import os
import platform
import shutil
import subprocess
import sys
import time

VERIF = os.path.dirname(os.path.dirname(os.path.abspath(__file__)))
PY = "/venv/bin/python"
REPO = (os.environ.get("VERIF_REPO") or "/repo").rstrip("/")
REPO_PATHS = REPO + "/compiler:" + REPO + "/lib/py"
ARCH = platform.machine()
SCRATCH = os.path.join(VERIF, "scratch")


class HarnessFailure(Exception):
    """The machinery failed (not the system under test). Exit status 2."""


def tree_hash() -> str:
    h = hashlib.sha256()
    for top in (REPO + "/compiler/bitproto", REPO + "/lib/py/bitprotolib", REPO + "/lib/c"):
        for d, dirs, files in sorted(os.walk(top)):
            dirs.sort()
            for f in sorted(files):
                if f.endswith((".py", ".c", ".h")):
                    p = os.path.join(d, f)
                    h.update(p.encode())
                    with open(p, "rb") as fh:
                        h.update(fh.read())
    return h.hexdigest()[:16]


_PYCACHE = None


def pycache_dir() -> str:
    """Byte-code cache keyed by the content of /repo's sources: never stale."""
    global _PYCACHE
    if _PYCACHE is None:
        th = tree_hash()
        os.makedirs(SCRATCH, exist_ok=True)
        for name in os.listdir(SCRATCH):
            if name.startswith("pycache-") and name != "pycache-" + th:
                shutil.rmtree(os.path.join(SCRATCH, name), ignore_errors=True)
        _PYCACHE = os.path.join(SCRATCH, "pycache-" + th)
        os.makedirs(_PYCACHE, exist_ok=True)
    return _PYCACHE


def child_env(hashseed, extra=None) -> dict:
    env = {
        "PATH": os.environ.get("PATH", "/usr/bin:/bin"),
        "PYTHONPATH": REPO_PATHS + ":" + VERIF,
        "PYTHONHASHSEED": str(int(hashseed) % 4294967296),
        "PYTHONPYCACHEPREFIX": pycache_dir(),
        "PYTHONUTF8": "1",
        "PYTHONNOUSERSITE": "1",
        "LC_ALL": "C.UTF-8",
        "LANG": "C.UTF-8",
        "HOME": "/nonexistent",
        "USER": "simuser",
        "LOGNAME": "simuser",
        "HOSTNAME": "simhost",
        "TERM": "dumb",
        "TMPDIR": os.environ.get("TMPDIR", "/tmp"),
        "VERIF_REPO": REPO,
    }
    if extra:
        env.update(extra)
    return env


def run_plan(plan: dict, timeout: float = 300.0) -> dict:
    """Execute one plan in a fresh interpreter. Returns
    {"status": "ok", "result": ...} | {"status": "timeout"} | {"status": "died", "rc":..., "stderr":...}
    Raises HarnessFailure for simulator errors."""
    data = json.dumps(plan, sort_keys=True, separators=(",", ":"))
    cmd = [PY, "-X", "utf8", "-m", "sim.exec"]
    if not plan.get("aslr"):
        cmd = ["setarch", ARCH, "-R"] + cmd
    try:
        p = subprocess.run(
            cmd,
            input=data.encode(),
            stdout=subprocess.PIPE,
            stderr=subprocess.PIPE,
            env=child_env(plan.get("hashseed", 0), plan.get("env")),
            cwd=VERIF,
            timeout=timeout,
        )
    except subprocess.TimeoutExpired:
        return {"status": "timeout"}
    err = p.stderr.decode("utf-8", "replace")
    if p.returncode == 3 or "HARNESS-ERROR" in err:
        raise HarnessFailure("worker reported: " + err[-2000:])
    line = None
    for l in p.stdout.decode("utf-8", "replace").splitlines():
        if l.startswith("RESULT "):
            line = l[7:]
    if p.returncode != 0 or line is None:
        return {"status": "died", "rc": p.returncode, "stderr": err[-4000:]}
    return {"status": "ok", "result": json.loads(line)}


def digest(obj) -> str:
    return hashlib.sha256(json.dumps(obj, sort_keys=True, separators=(",", ":")).encode()).hexdigest()


def pmap(fn, items, jobs: int, deadline=None):
    """Ordered parallel map with threads (the work is in subprocesses).
    Items whose start would be after `deadline` are skipped (None)."""
    out = [None] * len(items)

    def wrap(i):
        if deadline is not None and time.monotonic() > deadline:
            return i, None
        return i, fn(items[i])

    with concurrent.futures.ThreadPoolExecutor(max_workers=jobs) as ex:
        futs = [ex.submit(wrap, i) for i in range(len(items))]
        for f in concurrent.futures.as_completed(futs):
            i, r = f.result()
            out[i] = r
    return out


def jobs_default() -> int:
    try:
        return max(1, int(os.environ.get("VERIF_JOBS", "") or len(os.sched_getaffinity(0))))
    except Exception:
        return 8
