"""Seeded PRNG for the simulator.

One integer decides everything: VERIF_SEED -> SplitMix64 -> named streams.
Python's `random` module is deliberately not used (globally shared state,
version-dependent stream).
"""

import hashlib

MASK = (1 << 64) - 1


def _mix(z: int) -> int:
    z = (z + 0x9E3779B97F4A7C15) & MASK
    z = ((z ^ (z >> 30)) * 0xBF58476D1CE4E5B9) & MASK
    z = ((z ^ (z >> 27)) * 0x94D049BB133111EB) & MASK
    return z ^ (z >> 31)


def derive(seed: int, *names) -> int:
    """Derive an independent 64-bit seed from `seed` and a path of names."""
    h = hashlib.sha256()
    h.update(str(int(seed)).encode())
    for n in names:
        h.update(b"/")
        h.update(str(n).encode())
    return int.from_bytes(h.digest()[:8], "big")


class Rng:
    """SplitMix64 stream."""

    __slots__ = ("state", "draws")

    def __init__(self, seed: int, *names) -> None:
        self.state = derive(seed, *names) if names else (int(seed) & MASK)
        self.draws = 0

    def sub(self, *names) -> "Rng":
        """Independent child stream; does not advance this stream."""
        return Rng(derive(self.state, "sub", *names))

    def u64(self) -> int:
        self.state = (self.state + 0x9E3779B97F4A7C15) & MASK
        z = self.state
        z = ((z ^ (z >> 30)) * 0xBF58476D1CE4E5B9) & MASK
        z = ((z ^ (z >> 27)) * 0x94D049BB133111EB) & MASK
        self.draws += 1
        return z ^ (z >> 31)

    def below(self, n: int) -> int:
        """Uniform integer in [0, n)."""
        if n <= 0:
            raise ValueError("below(%r)" % (n,))
        if n > MASK:
            # big ranges: concatenate draws
            bits = n.bit_length() + 64
            v = 0
            for _ in range((bits + 63) // 64):
                v = (v << 64) | self.u64()
            return v % n
        return self.u64() % n

    def randint(self, a: int, b: int) -> int:
        """Uniform integer in [a, b]."""
        return a + self.below(b - a + 1)

    def chance(self, p: float) -> bool:
        return (self.u64() >> 11) * (1.0 / (1 << 53)) < p

    def unit(self) -> float:
        return (self.u64() >> 11) * (1.0 / (1 << 53))

    def choice(self, seq):
        return seq[self.below(len(seq))]

    def weighted(self, pairs):
        """pairs: sequence of (item, weight>=0 int)."""
        total = sum(w for _, w in pairs)
        k = self.below(total)
        for item, w in pairs:
            if k < w:
                return item
            k -= w
        raise AssertionError("unreachable")

    def shuffle(self, lst) -> None:
        for i in range(len(lst) - 1, 0, -1):
            j = self.below(i + 1)
            lst[i], lst[j] = lst[j], lst[i]

    def sample(self, seq, k: int):
        lst = list(seq)
        self.shuffle(lst)
        return lst[:k]

    def subset(self, seq, p: float = 0.5):
        return [x for x in seq if self.chance(p)]
